#!/usr/bin/env python3
"""Generates /verif/MANIFEST.json from the table below (kept valid at all times)."""
import json, os, subprocess
ROOT = os.path.dirname(os.path.dirname(os.path.abspath(__file__)))
props = [json.loads(l)["id"] for l in open(os.path.join(ROOT, "properties.jsonl"))]

CHECKS = {}
def add(pid, category, technique, text, note, ref):
    CHECKS[pid] = dict(category=category, technique=technique, text=text, note=note, ref=ref)

exec(open(os.path.join(ROOT, "bin", "checks_table.py")).read())

hooks_commits = subprocess.run(["git", "-C", "/repo", "log", "--format=%H %s"], capture_output=True, text=True).stdout.splitlines()
hook_commits = [l.split()[0] for l in hooks_commits if " verif-hooks:" in l]

man = {
    "version": 1,
    "setup_cmd": "bin/setup",
    "hooks": {
        "guard": "cargo feature `verif-hooks` of crate biscuit-auth (off by default)",
        "enable": "harness crate /verif/harness built with `--features hooks`, which turns on biscuit-auth/verif-hooks (bin/check does this for C05, C10, C11; all other checks build /repo with the guard off)",
        "baseline_off_cmd": "cd /repo && cargo test --workspace --no-fail-fast --offline",
        "source_commits": hook_commits,
        "add_only": True,
    },
    "engines": [
        {"name": "vharness", "path": "harness/", "serves_properties": sorted(CHECKS),
         "kind_free_text": "Rust harness linking the real crates: explicit-state BFS over API histories (E-hist), stateless DFS over environment choice points (hash order / virtual clock, E-choice), bounded-exhaustive input/program/mutation enumeration (E-enum), with reference models bound to the conformance samples"},
    ],
    "checks": [],
    "not_applicable": [],
    "notes": "All checks run on the real code of /repo rebuilt from its working tree by bin/check. Exit 0 = held (KNOWN-FINDING lines possible), 1 = VIOLATION, 2 = machinery failure. Known findings: known_findings.json.",
}
for pid in props:
    if pid in CHECKS:
        c = CHECKS[pid]
        man["checks"].append({
            "property_id": pid,
            "quick_cmd": f"bin/check {pid} quick",
            "thorough_cmd": f"bin/check {pid} thorough",
            "evidence_file": f"evidence/{pid}.json",
            "replay_cmd_template": "bin/replay {path}",
            "engine": "vharness",
            "level_claimed": {"category": c["category"], "text": c["text"], "design_ref": c["ref"]},
            "level_note": c["note"],
            "technique": c["technique"],
        })
    else:
        man["not_applicable"].append({"property_id": pid, "reason": "check not built yet (work in progress); the design for it is in DESIGN.md section 3"})
json.dump(man, open(os.path.join(ROOT, "MANIFEST.json"), "w"), indent=1)
print("checks:", len(man["checks"]), "not_applicable:", len(man["not_applicable"]))

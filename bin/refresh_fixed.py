#!/usr/bin/env python3
"""Rewrites the `fixed` entries of known_findings.json from the table below, looking the
commit of each fix up in /repo by its subject line (hashes change if history is rebased).
`known` entries are kept as they are."""
import json, subprocess, os
ROOT = os.path.dirname(os.path.dirname(os.path.abspath(__file__)))
FIXED = [
 ("C04", "fix: reject-if checks with several alternatives", "C04/decision/*/reject:a|b",
  "multi-alternative `reject if a or b` passed as soon as one alternative did not match (authorizer, authority and block check loops); found by the C04 scope-matrix differential against R-dl"),
 ("C02", "fix: UnverifiedBiscuit::append_third_party must not add", "C02/view-differs:*/... convert ; append_tp(t0) ; append(b3)",
  "UnverifiedBiscuit::append_third_party interned the third-party block's public keys into the token key table: history build;convert;append_third_party(t0);append(b3) printed `trusting ed25519/..` in memory and `<unknown public key id>` after reload (also C12, C07, C09: unwrap on untrusted payload)"),
 ("C06", "fix: lazy && and || must reject a non-boolean", "C06/table/type-error-not-detected/closure/Lazy{And,Or}/bool/params=0/1",
  "`true && 1` / `false || 1` evaluated to 1 instead of a type error (lazy boolean operators returned a non-boolean right operand unchanged)"),
 ("C10", "fix: iteration budget is cumulative", "C10/panic/authorizer.rs `limits.max_iterations -= iterations`; C10/S1-iterations-over-budget/*",
  "max_iterations == 0 never triggered; a run retried after TooManyIterations restarted with a full budget (iterations() > max_iterations on success); `max_iterations -= iterations` underflowed (panic in debug, wrap in release), also from a restored snapshot"),
 ("C10", "fix: facts present before a run", "C10/S1-facts-over-budget/*",
  "facts loaded before run (token + authorizer facts, or left by a failed run) were never compared with max_facts: preload(10) with max_facts=1 authorized"),
 ("C10", "fix: retrying after the iteration budget", "C10/S1-iterations-over-budget/*/...-after-a-call-failed-with-TooManyIterations",
  "after TooManyIterations iterations() is max+1; a retried call that reached the fixpoint returned Ok"),
 ("C13", "fix: Authorizer::from_snapshot restores tokens with third-party", "C13/restore-failed/*/third-party/restore: Format(UnknownSymbol(..))",
  "Authorizer::from_snapshot failed with UnknownSymbol for every authorizer built from a token with a third-party block; external keys of later blocks were not yet registered when an earlier block's scopes were resolved"),
 ("C13", "fix: an Authorizer loaded from saved policies", "C13/saved-policies-differ/*",
  "Authorizer::from(saved policies) kept facts and rules in the authorizer block only (empty Datalog world): the restored authorizer ignored them"),
 ("C16", "fix: blocks declaring datalog 3.0 with 3.3 content", "C16/under-declared-block-accepted/*/declared=3/*",
  "check_compatibility accepted any block declared version 3 that had no 3.1 feature, even with 3.3 content (null, closures, lazy operators, ...)"),
 ("C16", "fix: arrays, maps and .get() require datalog 3.3", "C16/builder-declares-wrong-version/*/term/{array,map,...}; C16/under-declared-block-accepted/*",
  "contains_v3_3_term only knew null: blocks whose only 3.3 feature was an array, a map, a nested null or .get() were declared version 3 with a version 0 signature and accepted under any declared version"),
 ("C14", "fix: printed Datalog escapes quotes", "C14/string/*",
  "strings and map-key strings were printed without escaping: a value such as a\"), admin(\"b printed as two predicates; backslashes and newlines printed as text the parser refuses or reads differently (also C20: parameter values made of Datalog syntax)"),
 ("C09", "fix: block accessors return an error for an index past", "C09/panic/biscuit-auth/src/token/mod.rs:562, unverified.rs:270",
  "print_block_source(block_count()) and block_version(block_count()) indexed out of bounds (off-by-one in block(index)) on Biscuit and UnverifiedBiscuit"),
 ("C09", "fix: Authorizer::from_snapshot refuses generated facts with unknown symbols", "C09/panic/biscuit-auth/src/token/authorizer.rs:696",
  "a snapshot whose generated facts refer to unknown symbols restored fine and then panicked (unwrap of UnknownSymbol) in dump() / dump_code()"),
 ("C09", "fix: displaying a builder expression never panics", "C09/panic/biscuit-auth/src/token/builder/expression.rs:90, term.rs:222",
  "Display of a builder Expression unwrapped the printer (None for malformed op sequences reachable from signed blocks / snapshots via dump_code) and panicked with 'Remaining parameter' on expressions with unbound parameters such as `check if {a}`"),
 ("C20", "fix: parameters nested in collections are substituted", "C20/panic/biscuit-auth/src/token/builder/term.rs:222|230",
  "Rule / Op apply_parameters did not recurse into sets, arrays and maps: a bound parameter nested in a rule head, body or expression literal survived to convert() -> panic 'Remaining parameter'; nested parameters were not collected either, so unbound ones were accepted on add; a map-key parameter bound to a non-key value panicked the same way"),
 ("C14", "fix: an empty map parses as a fact", "C14/term/map-empty, map-*-key-map-empty, array-of-one-map-empty",
  "the empty map `{}` printed by the library could not be parsed back in predicate position (the set parser ran first and failed hard)"),
 ("C14", "fix: 'hex:' parses as the empty byte array", "C14/term/bytes-empty, *-bytes-empty",
  "the empty byte array is printed `hex:` but the parser required at least one hex digit"),
 ("C19", "fix: C API add_* calls keep the builder usable", "C19/abort/*/after-a-failed-add",
  "a fact / rule / check / policy string that failed to parse (or was not UTF-8) left the wrapped builder empty: the next biscuit_builder_* / block_builder_* / authorizer_builder_* / build / append call on the handle unwrapped None and aborted the process"),
 ("C19", "fix: C API sealed size and sealed serialization", "C19/abort/SerializeSealed/{ed25519,secp256r1}; C19/differs-from-rust/Sizes/biscuit_sealed_size",
  "biscuit_sealed_size returned the unsealed size and biscuit_serialize_sealed copied the sealed bytes into a slice of the unsealed length: every call aborted the process"),
 ("C19", "fix: C API reports construction failures", "C19/differs-from-rust/From{Truncated,OtherRoot}/biscuit_from failed",
  "biscuit_from, biscuit_builder_build, biscuit_authorizer and authorizer_builder_build* dropped the Rust error (error_kind() stayed None or stale); a NULL authorizer builder recorded InvalidArgument and then unwrapped it"),
 ("C19", "fix: public_key_serialize refuses a key", "C19/abort/PubRoundTrip/secp256r1",
  "public_key_serialize copied a 33-byte secp256r1 key into the 32-byte buffer slice: abort"),
 ("C14", "fix: UnverifiedBiscuit prints a third-party block", "C14/item/*/scope-{ed25519,secp256r1,authority+keys,previous+key} (printed_by UnverifiedBiscuit, third-party block)",
  "UnverifiedBiscuit::print_block_source on a third-party block resolved its `trusting <key>` scopes against the token-wide key table: in a token whose table holds other keys it printed a different key than Biscuit::print_block_source on the same bytes (also C12 / C07: the unverified view of a third-party block)"),
]
log = subprocess.run(["git", "-C", "/repo", "log", "--format=%H %s"], capture_output=True, text=True).stdout.splitlines()
path = os.path.join(ROOT, "known_findings.json")
cur = json.load(open(path))
out = [e for e in cur if e.get("status") == "known"]
for prop, subject, key, what in FIXED:
    c = next((l.split()[0] for l in log if subject in l), None)
    if c is None:
        print("WARNING: no commit for", subject); continue
    out.append({"status": "fixed", "property": prop, "key": key, "commit": c, "subject": subject,
                "what": "fixed: property=%s %s %s" % (prop, c[:12], what)})
json.dump(out, open(path, "w"), indent=1)
print(len([e for e in out if e["status"]=="known"]), "known,", len([e for e in out if e["status"]=="fixed"]), "fixed")

#!/usr/bin/env python3
"""Writes into every seeded/<id>/meta.json what was run against it (last result per check in seeded/matrix.tsv)."""
import json, os, collections
ROOT = os.path.dirname(os.path.dirname(os.path.abspath(__file__)))
last = collections.OrderedDict()
for l in open(os.path.join(ROOT, "seeded", "matrix.tsv")):
    p = l.rstrip("\n").split("\t")
    if len(p) >= 6:
        last[(p[0], p[1])] = p
per = collections.defaultdict(list)
for (s, c), p in last.items():
    per[s].append({"check": "bin/check %s quick (against a scratch worktree of /repo %s + patch.diff)" % (c, p[2]),
                   "result": "caught" if p[3] == "1" else ("missed" if p[3] == "0" else p[3]),
                   "violation_lines": p[4], "first_key": p[5]})
for s, runs in per.items():
    f = os.path.join(ROOT, "seeded", s, "meta.json")
    if not os.path.exists(f):
        continue
    d = json.load(open(f))
    d["checks_run"] = runs
    json.dump(d, open(f, "w"), indent=2)
print("updated", len(per), "meta.json files")

add("C02", "model_checking",
    "explicit-state BFS over real API operation histories with an independent signature-layout oracle",
    "Every state reachable by build/append/append_third_party/seal/convert/reload histories up to the stated depth, over both key algorithms in every position, is reloaded through all four load paths and compared (views, bytes); every signature is re-verified by an independent implementation of the specification's payload layouts (R-sig) and the declared signature versions are compared with the prescribed ones.",
    "Deterministic key pool instead of OS RNG; ed25519-dalek/p256 primitives trusted; bound = depth after build (quick 2, thorough 3) over contents {b0,b3,b5,t0}.",
    "DESIGN.md §3 C02")
add("C01", "fault_enumeration",
    "exhaustive structured/algebraic/byte-level fault enumeration over an E-hist corpus of real tokens, plus pruned DFS attacker-assembly search decided by the real verifier",
    "For every token reachable by real API histories (both algorithms in every position, signature versions 0/1, first/third-party, sealed/unsealed) every single-field mutation, splice with every value of its partner tokens, block delete/duplicate/transpose/insert, proof operator, signature-algebra operator (ECDSA s-negation, DER re-encodings, ed25519 S+L, key re-encodings), wrong root and (per class) every bit flip / deletion / truncation is presented to the real loaders; thorough adds an exhaustive recombination search over pairs of tokens. Oracle: refused, or exactly the same signed content (or exactly another honestly issued token).",
    "Cryptographic hardness assumed; only recombinations/transformations of honestly produced material are enumerated; bound = corpus depth (quick 1, thorough 2 ops after build).",
    "DESIGN.md §3 C01")
add("C04", "model_checking",
    "bounded-exhaustive enumeration of scope configurations (full product for n<=2 blocks, <=2 deviations for n=3) with a differential oracle: reference Datalog interpreter bound to the conformance samples",
    "Every program of the scope matrix (each block first/third-party with a fact, a rule and a check of each kind with 1-2 alternatives; authorizer fact, rule, check, ordered allow/deny policies; every scope position enumerated) is authorized by the real code and by the reference interpreter R-dl; decisions (policy index, ordered failed-check list), per-origin worlds and query/query_all results must be equal. R-dl must first reproduce every validation of samples.json.",
    "R-dl (Appendix A of DESIGN.md) is the definition of the semantics; error-free programs, non-binding limits; world read through print_world + parser.",
    "DESIGN.md §3 C04")
add("C05", "model_checking",
    "bounded-exhaustive enumeration of Datalog worlds against a naive reference fixpoint, plus exhaustive insertion-order permutations and hash-order exploration through a controlled iteration-order seam",
    "Worlds are built through the public datalog::World API from every rule template x owner x trusted set x fact base, all template pairs, and the full origin-assignment matrix for joins; the engine's final (origin set, fact) set must equal the reference least fixpoint exactly, for every insertion order of facts and rules and every explored iteration order of the hash-based stores (all rankings of small key universes, seeded orders beyond); query_rule / query_match / query_match_all are compared on the final world.",
    "R-dl fixpoint is the definition; hash order modelled as one global key ranking per execution (H1 seam, feature verif-hooks); bounded to <= 6 facts, <= 6 rules per world.",
    "DESIGN.md §3 C05")
add("C06", "model_checking",
    "exhaustive enumeration of the operator x type x type table and of all operation sequences up to a length bound, against a reference evaluator",
    "Every unary/binary operator over a 23-value set (all types, i64 extremes, empty and nested collections), every closure-taking operator x closure body x parameter list, and every operation sequence (well-formed or not) up to length 5 (quick) / 6 (thorough) over a 28-symbol alphabet is evaluated by the real stack machine inside catch_unwind and by the reference evaluator R-expr (i128 arithmetic, explicit type table, lazy closures, shadowing rule); table cells are also run through AuthorizerBuilder + authorize().",
    "R-expr is the definition; regex delegated to the regex crate on both sides; all/any over unordered sets with an erroring and a deciding element accepted either way.",
    "DESIGN.md §3 C06")
add("C11", "model_checking",
    "stateless exploration of all iteration orders of the engine's hash-based stores (every ranking of small key universes, deviation-bounded beyond) through a controlled order seam; oracle: singleton outcome set",
    "For hand-written programs built to make order matter (bindings that error next to bindings that match, several error kinds, rule groups) and systematically generated error-free programs (every check kind x threshold x alternatives x policy list, authorizer-only and token with origins), every ranking of the recorded key universe (<= 6 keys: all k!; larger: all rankings within 2 deviations + seeded) is imposed on a freshly built, a cloned and a snapshot-restored authorizer; the set of observations (authorize result incl. policy index, ordered failed checks, error kind; sorted query results; iterations) must be a singleton. Each order is run twice and must replay identically.",
    "Hash order modelled as one global key ranking per execution through the H1 seam; virtual clock frozen; 9 order-dependent programs are listed as known findings (first-binding short-circuit in find_match / check_match_all / run).",
    "DESIGN.md §3 C11")
add("C10", "model_checking",
    "explicit enumeration of API call sequences x programs x limit classes under a virtual clock driven by work ticks (controlled environment), with budget invariants checked after every call",
    "Every call sequence up to depth 2 (quick) / 3 (thorough) over {run, authorize, authorize_with_limits, query, query_all, query_with_limits, clone, snapshot->restore} on one Authorizer, for every program family (chains needing exactly L iterations, fan-out, k-way joins = one expensive iteration, preloaded facts, mixed; in the authorizer or in a token block) and every limit class (each budget at 0, 1, need-1, need, need+1, others unlimited; all at / below the boundary). Time is virtual: each candidate examined by the join iterator costs 1 microsecond. Invariants: a completed evaluation call never leaves iterations(), fact_count() or cumulative virtual time above the budget (S1); after the deadline passes the call returns within 32 x (facts + body predicates + 1) ticks (S2); no panic.",
    "Virtual time (H2/H3 seams) replaces wall-clock time; the promptness allowance is a stated operationalisation; two known findings (time of failed calls forgotten; no clock read inside a join).",
    "DESIGN.md §3 C10")
add("C03", "model_checking",
    "bounded-exhaustive enumeration of (token, appended block, authorizer) triples from a scoping grammar, metamorphic oracle evaluated on the real code for every triple",
    "For every triple of the grammar (1-2 block tokens, first- or third-party extensions with facts, rules and checks of the three kinds aimed at earlier blocks' predicates under every scope, authorizers with facts, rules, checks, ordered allow/deny policies and scopes that never name the extension's key): if the extended token is authorized the original is authorized by the same policy, every failed check of the original still fails, and every fact whose origin does not contain the new block is unchanged.",
    "Both sides of the oracle are the real implementation (C04 ties it to the reference semantics); limits non-binding.",
    "DESIGN.md §3 C03")

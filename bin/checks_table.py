add("C02", "model_checking",
    "explicit-state BFS over real API operation histories with an independent signature-layout oracle",
    "Every state reachable by build/append/append_third_party/seal/convert/reload histories up to the stated depth, over both key algorithms in every position, is reloaded through all four load paths and compared (views, bytes); every signature is re-verified by an independent implementation of the specification's payload layouts (R-sig) and the declared signature versions are compared with the prescribed ones.",
    "Deterministic key pool instead of OS RNG; ed25519-dalek/p256 primitives trusted; bound = depth after build (quick 2, thorough 3) over contents {b0,b3,b5,t0}.",
    "DESIGN.md §3 C02")

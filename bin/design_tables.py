#!/usr/bin/env python3
"""Regenerates the generated tables of DESIGN.md (between BEGIN/END markers) from the committed
evidence files, known_findings.json and seeded/matrix.tsv."""
import json, os, glob, collections, re
ROOT = os.path.dirname(os.path.dirname(os.path.abspath(__file__)))

def measured():
    rows = ["| id | level | tier of the committed evidence | states / transitions or evaluations | wall (s) | known findings reproduced |", "|---|---|---|---|---|---|"]
    for f in sorted(glob.glob(os.path.join(ROOT, "evidence", "C*.json"))):
        e = json.load(open(f)); c = e["coverage"]
        if "states" in c:
            n = "%s states / %s transitions" % (c["states"], c["transitions"])
        else:
            n = "%s evaluations" % c.get("evaluations", c.get("inputs_enumerated", "?"))
        rows.append("| %s | %s | %s | %s | %s | %s |" % (e["property_id"], e["level"], e["tier"], n, round(e.get("wall_s", 0)), len(c.get("known_findings_reproduced", []))))
    return "\n".join(rows)

def seeds():
    path = os.path.join(ROOT, "seeded", "matrix.tsv")
    last = collections.OrderedDict()
    if os.path.exists(path):
        for l in open(path):
            p = l.rstrip("\n").split("\t")
            if len(p) >= 6:
                last[(p[0], p[1])] = p
    per_seed = collections.OrderedDict()
    for (s, c), p in last.items():
        per_seed.setdefault(s, []).append(p)
    rows = ["| seeded change | what it breaks (from its meta.json) | check | result at /repo HEAD | first violation key |", "|---|---|---|---|---|"]
    for s, ps in sorted(per_seed.items(), key=lambda kv: (int(kv[0][1:3]), kv[0])):
        try:
            meta = json.load(open(os.path.join(ROOT, "seeded", s, "meta.json")))
            what = re.sub(r"\s+", " ", meta.get("summary", ""))[:160].replace("|", "/")
        except Exception:
            what = ""
        for p in ps:
            if p[3] == "1":
                res = "**caught** (%s violation lines)" % p[4]
            elif p[3] == "0":
                res = "missed (check passes)"
            else:
                res = p[3]
            rows.append("| %s | %s | %s | %s | `%s` |" % (s, what, p[1], res, p[5].replace("|", "/")[:110]))
            what = "〃"
    return "\n".join(rows)

def findings():
    k = json.load(open(os.path.join(ROOT, "known_findings.json")))
    rows = ["| property | status | key | what |", "|---|---|---|---|"]
    for e in k:
        what = re.sub(r"\s+", " ", e["what"]).replace("|", "/")
        if e["status"] == "fixed":
            what = what[:400]
        rows.append("| %s | %s | `%s` | %s |" % (e["property"], e["status"] + ((" " + e["commit"][:7]) if e.get("commit") else ""), e["key"].replace("|", "/"), what[:600]))
    return "\n".join(rows)

p = os.path.join(ROOT, "DESIGN.md")
s = open(p).read()
for name, fn in (("measured", measured), ("seed-matrix", seeds), ("findings", findings)):
    b, e = "<!-- BEGIN %s -->" % name, "<!-- END %s -->" % name
    if b in s and e in s:
        s = s[: s.index(b) + len(b)] + "\n" + fn() + "\n" + s[s.index(e):]
open(p, "w").write(s)
print("DESIGN.md tables regenerated")

//! C18 — compile-time macros equal run-time parsing.
//! E-enum: sources are generated from the grammar (terms, expression derivations, scopes, parameter
//! positions x values), a crate with one macro invocation per case is generated and compiled against
//! the repository's current tree, and every case compares the macro-built value with the value
//! built by the run-time parser from the same text and the same bindings.
use crate::c14;
use crate::c20;
use crate::common::*;
use biscuit_auth::builder as b;
use biscuit_auth::builder::{MapKey, Term};
use rayon::prelude::*;
use serde_json::json;
use std::collections::{BTreeMap, HashMap};
use std::convert::TryFrom;
use std::path::{Path, PathBuf};

const SUPPORT: &str = include_str!("../c18gen/lib.rs");

#[derive(Clone, Copy, Debug, PartialEq, Eq, PartialOrd, Ord)]
pub enum Kind {
    Fact,
    Rule,
    Check,
    Policy,
    Block,
    Biscuit,
    Authorizer,
    BlockMerge,
    BiscuitMerge,
    AuthorizerMerge,
}

impl Kind {
    fn name(self) -> &'static str {
        match self {
            Kind::Fact => "fact!",
            Kind::Rule => "rule!",
            Kind::Check => "check!",
            Kind::Policy => "policy!",
            Kind::Block => "block!",
            Kind::Biscuit => "biscuit!",
            Kind::Authorizer => "authorizer!",
            Kind::BlockMerge => "block_merge!",
            Kind::BiscuitMerge => "biscuit_merge!",
            Kind::AuthorizerMerge => "authorizer_merge!",
        }
    }
}

#[derive(Clone, Debug)]
pub struct Case {
    pub family: String,
    pub class: String,
    pub kind: Kind,
    pub src: String,
    /// name, value, and whether the macro receives the native Rust form (when one exists)
    pub params: Vec<(String, Term, bool)>,
    /// name, index into the support library's key pool
    pub scope_params: Vec<(String, usize)>,
    /// parameters taken from in-scope variables instead of `name = expr`
    pub in_scope: bool,
    /// the two parameters are given as `a = b.clone(), b = a.clone()` while variables `a` and `b` are in scope:
    /// parameter expressions are evaluated in the caller's scope, not in each other's
    pub swap: bool,
}

fn rust_str(s: &str) -> String {
    format!("{:?}", s)
}

/// a Rust expression of type builder::Term
fn term_expr(t: &Term) -> String {
    match t {
        Term::Variable(v) => format!("T::Variable(String::from({}))", rust_str(v)),
        Term::Integer(i) => format!("T::Integer({i}i64)"),
        Term::Str(s) => format!("T::Str(String::from({}))", rust_str(s)),
        Term::Date(d) => format!("T::Date({d}u64)"),
        Term::Bytes(v) => format!("T::Bytes(vec![{}])", v.iter().map(|x| format!("{x}u8")).collect::<Vec<_>>().join(", ")),
        Term::Bool(x) => format!("T::Bool({x})"),
        Term::Null => "T::Null".to_string(),
        Term::Set(s) => format!("T::Set(vec![{}].into_iter().collect())", s.iter().map(term_expr).collect::<Vec<_>>().join(", ")),
        Term::Array(a) => format!("T::Array(vec![{}])", a.iter().map(term_expr).collect::<Vec<_>>().join(", ")),
        Term::Map(m) => format!(
            "T::Map(vec![{}].into_iter().collect())",
            m.iter()
                .map(|(k, v)| {
                    let k = match k {
                        MapKey::Integer(i) => format!("K::Integer({i}i64)"),
                        MapKey::Str(s) => format!("K::Str(String::from({}))", rust_str(s)),
                        MapKey::Parameter(p) => format!("K::Parameter(String::from({}))", rust_str(p)),
                    };
                    format!("({k}, {})", term_expr(v))
                })
                .collect::<Vec<_>>()
                .join(", ")
        ),
        Term::Parameter(p) => format!("T::Parameter(String::from({}))", rust_str(p)),
    }
}

/// the native Rust value the macros document for this term, if there is one
fn native_expr(t: &Term) -> Option<String> {
    Some(match t {
        Term::Integer(i) => format!("{i}i64"),
        Term::Str(s) => rust_str(s),
        Term::Bool(x) => format!("{x}"),
        Term::Bytes(v) => format!("vec![{}]", v.iter().map(|x| format!("{x}u8")).collect::<Vec<_>>().join(", ")),
        Term::Date(d) => format!("(std::time::UNIX_EPOCH + std::time::Duration::from_secs({d}u64))"),
        Term::Set(s) => format!("vec![{}].into_iter().collect::<std::collections::BTreeSet<T>>()", s.iter().map(term_expr).collect::<Vec<_>>().join(", ")),
        _ => return None,
    })
}

fn emit(id: usize, c: &Case) -> String {
    let src = rust_str(&c.src);
    let p_list = c.params.iter().map(|(n, t, _)| format!("({}, {})", rust_str(n), term_expr(t))).collect::<Vec<_>>().join(", ");
    let s_list = c.scope_params.iter().map(|(n, k)| format!("({}, pk({k}))", rust_str(n))).collect::<Vec<_>>().join(", ");
    let mut bindings: Vec<(String, String)> = vec![];
    for (n, t, native) in &c.params {
        let e = if *native { native_expr(t).unwrap_or_else(|| term_expr(t)) } else { term_expr(t) };
        bindings.push((n.clone(), e));
    }
    for (n, k) in &c.scope_params {
        bindings.push((n.clone(), format!("pk({k})")));
    }
    if c.swap {
        // declared values are what the run-time path must see: a gets the variable b's value and vice versa
        let (na, ta, _) = &c.params[0];
        let (nb, tb, _) = &c.params[1];
        let pre = format!("let {na} = {}; let {nb} = {}; ", term_expr(tb), term_expr(ta));
        let args = format!(", {na} = {nb}.clone(), {nb} = {na}.clone()");
        return emit_with(id, c, &src, &p_list, &s_list, &pre, &args);
    }
    let (pre, args) = if c.in_scope { (bindings.iter().map(|(n, e)| format!("let {n} = {e}; ")).collect::<String>(), String::new()) } else { (String::new(), bindings.iter().map(|(n, e)| format!(", {n} = {e}")).collect::<String>()) };
    emit_with(id, c, &src, &p_list, &s_list, &pre, &args)
}

fn emit_with(id: usize, c: &Case, src: &str, p_list: &str, s_list: &str, pre: &str, args: &str) -> String {
    let (func, mac, merge, target) = match c.kind {
        Kind::Fact => ("case_fact", "fact", None, ""),
        Kind::Rule => ("case_rule", "rule", None, ""),
        Kind::Check => ("case_check", "check", None, ""),
        Kind::Policy => ("case_policy", "policy", None, ""),
        Kind::Block => ("case_block", "block", Some(false), ""),
        Kind::Biscuit => ("case_biscuit", "biscuit", Some(false), ""),
        Kind::Authorizer => ("case_authorizer", "authorizer", Some(false), ""),
        Kind::BlockMerge => ("case_block", "block_merge", Some(true), "block_target(), "),
        Kind::BiscuitMerge => ("case_biscuit", "biscuit_merge", Some(true), "biscuit_target(), "),
        Kind::AuthorizerMerge => ("case_authorizer", "authorizer_merge", Some(true), "authorizer_target(), "),
    };
    let merge_arg = match merge {
        Some(m) => format!("{m}, "),
        None => String::new(),
    };
    format!("{{ {pre}{func}({id}, {src}, &[{p_list}], &[{s_list}], {merge_arg}move || {mac}!({target}{src}{args})); }}")
}

// ------------------------------------------------------------------ generation

/// does the run-time parser accept this text for this kind (the macro uses the same parser at compile time)
fn parses(kind: Kind, src: &str) -> bool {
    guard(|| match kind {
        Kind::Fact => b::Fact::try_from(src).is_ok(),
        Kind::Rule => b::Rule::try_from(src).is_ok(),
        Kind::Check => b::Check::try_from(src).is_ok(),
        Kind::Policy => b::Policy::try_from(src).is_ok(),
        Kind::Block | Kind::Biscuit | Kind::BlockMerge | Kind::BiscuitMerge => biscuit_parser::parser::parse_block_source(src).is_ok(),
        Kind::Authorizer | Kind::AuthorizerMerge => biscuit_parser::parser::parse_source(src).is_ok(),
    })
    .unwrap_or(false)
}

/// the parameter names the parser finds in the text (a printed one-element set of booleans or bytes reads
/// back as a parameter, C14's known finding: such a text is not the program it was meant to be)
fn used_parameters(kind: Kind, src: &str) -> Option<std::collections::BTreeSet<String>> {
    use biscuit_parser::parser::{parse_block_source, parse_source};
    let mut names = std::collections::BTreeSet::new();
    let text = match kind {
        Kind::Fact | Kind::Rule | Kind::Check | Kind::Policy => format!("{src};"),
        _ => src.to_string(),
    };
    let rules_of = |r: &biscuit_parser::builder::Rule, names: &mut std::collections::BTreeSet<String>| {
        for k in r.parameters.iter().flatten().map(|(k, _)| k.clone()) {
            names.insert(k);
        }
        for k in r.scope_parameters.iter().flatten().map(|(k, _)| k.clone()) {
            names.insert(k);
        }
    };
    let s = parse_source(&text).ok()?;
    for (_, f) in &s.facts {
        for k in f.parameters.iter().flatten().map(|(k, _)| k.clone()) {
            names.insert(k);
        }
    }
    for (_, r) in &s.rules {
        rules_of(r, &mut names);
    }
    for (_, c) in &s.checks {
        for r in &c.queries {
            rules_of(r, &mut names);
        }
    }
    for (_, p) in &s.policies {
        for r in &p.queries {
            rules_of(r, &mut names);
        }
    }
    let _ = parse_block_source;
    Some(names)
}

fn term_class(name: &str) -> String {
    name.split('-').take(2).collect::<Vec<_>>().join("-")
}

pub fn cases(tier: Tier) -> (Vec<Case>, usize) {
    let mut out: Vec<Case> = vec![];
    let mut not_expressible = 0usize;
    let mut push = |out: &mut Vec<Case>, c: Case| {
        let declared: std::collections::BTreeSet<String> = c.params.iter().map(|(n, _, _)| n.clone()).chain(c.scope_params.iter().map(|(n, _)| n.clone())).collect();
        if parses(c.kind, &c.src) && used_parameters(c.kind, &c.src) == Some(declared) {
            out.push(c);
        } else {
            not_expressible += 1;
        }
    };
    let plain = |family: &str, class: String, kind: Kind, src: String| Case { family: family.to_string(), class, kind, src, params: vec![], scope_params: vec![], in_scope: false, swap: false };
    // F1: every term kind in every position, through every macro
    for (name, t) in c14::all_terms() {
        let s = t.to_string();
        let cl = term_class(&name);
        push(&mut out, plain("term", cl.clone(), Kind::Fact, format!("p({s})")));
        push(&mut out, plain("term", cl.clone(), Kind::Rule, format!("r($x, {s}) <- q($x, {s}), $x != {s}")));
        push(&mut out, plain("term", cl.clone(), Kind::Check, format!("check if q($x), $x === {s}")));
        push(&mut out, plain("term", cl.clone(), Kind::Policy, format!("allow if q({s}) or q($x), [{s}].contains($x)")));
        push(&mut out, plain("term", cl.clone(), Kind::Block, format!("p({s}); r($x) <- q($x, {s}); check if q({s})")));
        push(&mut out, plain("term", cl.clone(), Kind::Biscuit, format!("p({s}); check all q($x), $x == {s}")));
        push(&mut out, plain("term", cl.clone(), Kind::Authorizer, format!("p({s}); check if q($x), $x !== {s}; allow if p({s}); deny if true")));
    }
    // F2: expression derivations
    let depth = tier.pick(2, 3);
    let mut shape_seen: HashMap<String, usize> = HashMap::new();
    for (shape, e) in c14::expression_sources(depth) {
        let nested = shape.contains(" as ") || shape.contains(" of (") || shape.contains("closure body") || shape.contains("nested closure");
        let nth = {
            let n = shape_seen.entry(shape.clone()).or_default();
            *n += 1;
            *n
        };
        if tier == Tier::Quick {
            // quick: every depth-1 derivation through check!, the first of each shape through the other macros,
            // and of the depth-2 derivations the ones with `$x` as the other operand
            if nested && !(e.contains("$x") && (shape.contains("||") || shape.contains("&&") || shape.contains("===") || shape.contains("+") || shape.contains("receiver of contains") || shape.contains("argument of get") || shape.contains("closure") || shape.starts_with("! of") || shape.starts_with("length of"))) {
                continue;
            }
        }
        push(&mut out, plain("expression", shape.clone(), Kind::Check, format!("check if q($x), {e}")));
        if tier == Tier::Thorough || (!nested && nth == 1) {
            push(&mut out, plain("expression", shape.clone(), Kind::Rule, format!("r($x) <- q($x), {e}")));
            push(&mut out, plain("expression", shape.clone(), Kind::Authorizer, format!("check all q($x), {e}; allow if true")));
        }
        if (tier == Tier::Thorough && !nested) || (!nested && nth == 1) {
            push(&mut out, plain("expression", shape.clone(), Kind::Block, format!("r($x) <- q($x), {e}; check if q($x), {e}")));
            push(&mut out, plain("expression", shape.clone(), Kind::Policy, format!("deny if q($x), {e}")));
        }
    }
    // F3: scopes
    let ed = format!("ed25519/{}", hex::encode(crate::tok::key(crate::tok::Alg::Ed, 9, 0).public().to_bytes()));
    let p2 = format!("secp256r1/{}", hex::encode(crate::tok::key(crate::tok::Alg::P256, 9, 0).public().to_bytes()));
    let scope_sets: Vec<(String, String, Vec<(String, usize)>)> = vec![
        ("none".into(), "".into(), vec![]),
        ("authority".into(), " trusting authority".into(), vec![]),
        ("previous".into(), " trusting previous".into(), vec![]),
        ("ed25519-key".into(), format!(" trusting {ed}"), vec![]),
        ("secp256r1-key".into(), format!(" trusting {p2}"), vec![]),
        ("authority+key".into(), format!(" trusting authority, {ed}"), vec![]),
        ("previous+key+key".into(), format!(" trusting previous, {p2}, {ed}"), vec![]),
        ("param-ed25519".into(), " trusting {k}".into(), vec![("k".into(), 0)]),
        ("param-secp256r1".into(), " trusting {k}".into(), vec![("k".into(), 1)]),
        ("authority+param".into(), " trusting authority, {k}".into(), vec![("k".into(), 0)]),
        ("two-params".into(), " trusting {k}, {l}".into(), vec![("k".into(), 2), ("l".into(), 1)]),
        ("same-param-twice".into(), " trusting {k}, {k}".into(), vec![("k".into(), 0)]),
    ];
    for (name, sc, sp) in &scope_sets {
        for (kind, src) in [
            (Kind::Rule, format!("r($x) <- q($x){sc}")),
            (Kind::Check, format!("check if q($x){sc}")),
            (Kind::Check, format!("check all q($x), $x == 1{sc} or s($x){sc}")),
            (Kind::Check, format!("reject if s($x){sc}")),
            (Kind::Policy, format!("allow if q($x){sc} or s(2){sc}")),
            (Kind::Policy, format!("deny if s($x){sc}")),
            (Kind::Block, format!("r($x) <- q($x){sc}; check if q($x){sc}")),
            (Kind::Biscuit, format!("r($x) <- q($x){sc}; check if r($x){sc}")),
            (Kind::Authorizer, format!("r($x) <- s($x){sc}; check if s($x){sc}; allow if r($x){sc}; deny if true")),
            (Kind::BlockMerge, format!("check if q($x){sc}")),
            (Kind::AuthorizerMerge, format!("allow if s($x){sc}")),
            (Kind::Block, format!("trusting authority; r($x) <- q($x){sc}")),
        ] {
            for in_scope in [false, true] {
                if in_scope && sp.is_empty() {
                    continue;
                }
                push(&mut out, Case { family: "scope".into(), class: name.clone(), kind, src: src.clone(), params: vec![], scope_params: sp.clone(), in_scope, swap: false });
            }
        }
    }
    // F4: parameter positions x values x macros
    let typed: Vec<(String, Term)> = c20::values(Tier::Quick).into_iter().filter(|(n, _)| !n.starts_with("string:")).collect();
    let named_strings: Vec<(String, Term)> = ["plain", "a\"), admin(\"b", "\"; allow if true; //", "{p}", "$x", "\\", "line\nbreak", "", "trusting authority", "é\u{0}"].iter().map(|s| (format!("string:{}", s.escape_debug()), b::string(s))).collect();
    let hostile: Vec<(String, Term)> = c14::hostile_strings(tier.pick(1, 2)).into_iter().map(|s| (format!("string:{}", s.escape_debug()), b::string(&s))).collect();
    for t in c20::templates() {
        // one macro argument has one Rust type: a name used both as a term and as a scope parameter cannot be
        // bound through a macro (C20 covers those templates on the run-time path)
        if t.term_params.iter().any(|n| t.scope_params.contains(n)) {
            continue;
        }
        let base_kind = match t.kind {
            "fact" => Kind::Fact,
            "rule" => Kind::Rule,
            "check" => Kind::Check,
            _ => Kind::Policy,
        };
        let containers: Vec<Kind> = match base_kind {
            Kind::Policy => vec![Kind::Authorizer, Kind::AuthorizerMerge],
            _ => vec![Kind::Block, Kind::Biscuit, Kind::Authorizer, Kind::BlockMerge, Kind::BiscuitMerge, Kind::AuthorizerMerge],
        };
        let scope_params: Vec<(String, usize)> = t.scope_params.iter().enumerate().map(|(i, n)| (n.to_string(), (i + 1) % 3)).collect();
        let mut value_sets: Vec<(String, Vec<(String, Term)>)> = vec![];
        let mut vals: Vec<(String, Term)> = typed.clone();
        vals.extend(named_strings.clone());
        let wide = matches!(t.name, "fact/term" | "rule/expression-operand" | "check/closure" | "fact/map-key" | "policy/body");
        if wide || tier == Tier::Thorough {
            vals.extend(hostile.clone());
        }
        if t.term_params.is_empty() {
            value_sets.push(("no-term-param".into(), vec![]));
        } else {
            for (vn, v) in &vals {
                // the first parameter takes the value, the others a fixed integer / string (or the same value)
                let mut set = vec![];
                for (i, n) in t.term_params.iter().enumerate() {
                    let val = if i == 0 {
                        v.clone()
                    } else if t.name.contains("set-members") {
                        v.clone()
                    } else {
                        b::int(5)
                    };
                    set.push((n.to_string(), val));
                }
                value_sets.push((vn.clone(), set));
            }
        }
        for (vn, set) in &value_sets {
            // map-key parameters only accept integers and strings: other values are refused by both paths, keep a few
            let vclass = if vn.starts_with("string:") { "string".to_string() } else { vn.clone() };
            let is_typed = !vn.starts_with("string:") || vn == "string:plain";
            for native in [false, true] {
                if native && !set.iter().any(|(_, v)| native_expr(v).is_some()) {
                    continue;
                }
                let params: Vec<(String, Term, bool)> = set.iter().map(|(n, v)| (n.clone(), v.clone(), native)).collect();
                let class = format!("{}/{}{}", t.name, vclass, if native { "/native" } else { "/term" });
                push(&mut out, Case { family: "parameter".into(), class: class.clone(), kind: base_kind, src: t.src.to_string(), params: params.clone(), scope_params: scope_params.clone(), in_scope: false, swap: false });
                let with_containers = if tier == Tier::Thorough { is_typed } else { matches!(vn.as_str(), "int" | "set" | "map" | "string:plain") };
                if is_typed && (tier == Tier::Thorough || with_containers || !native) {
                    push(&mut out, Case { family: "parameter".into(), class: format!("{class}/in-scope"), kind: base_kind, src: t.src.to_string(), params: params.clone(), scope_params: scope_params.clone(), in_scope: true, swap: false });
                    for k in containers.iter().filter(|_| with_containers) {
                        let src = match base_kind {
                            Kind::Policy => format!("{}; deny if true", t.src),
                            _ => t.src.to_string(),
                        };
                        push(&mut out, Case { family: "parameter".into(), class: class.clone(), kind: *k, src, params: params.clone(), scope_params: scope_params.clone(), in_scope: false, swap: false });
                    }
                }
            }
        }
    }
    // F5: documents with several items sharing parameters (the macro clones the value for all but the last user)
    let docs: Vec<(&str, Kind, &str)> = vec![
        ("shared-param-facts", Kind::Block, "a({p}); b({p}, {p}); c([{p}])"),
        ("shared-param-all-item-kinds", Kind::Block, "a({p}); r($x) <- q($x, {p}); check if c({p}) trusting {k}; check if d($x), $x == {p} trusting {k}"),
        ("shared-param-all-item-kinds", Kind::Biscuit, "a({p}); r($x) <- q($x, {p}); check if c({p}) trusting {k}; reject if d($x), $x == {p} trusting {k}"),
        ("shared-param-all-item-kinds", Kind::Authorizer, "a({p}); r($x) <- q($x, {p}) trusting {k}; check if a({p}); allow if r($x), $x == {p} trusting {k}; deny if a({p})"),
        ("interleaved-order", Kind::Block, "check if q($x); a(1); r($x) <- q($x); b(2); check all q($x), $x == 1; r2($x) <- a($x)"),
        ("interleaved-order", Kind::Authorizer, "allow if a(2); check if q($x); a(1); deny if true; r($x) <- q($x); b(2)"),
        ("interleaved-order-with-params", Kind::Authorizer, "allow if a({p}); check if q({p}); a({p}); deny if b({p}); r($x) <- q($x, {p}); b({p})"),
        ("merge-shared", Kind::BlockMerge, "a({p}); check if tbase({p}); r($x) <- tbase($x), $x == {p}"),
        ("merge-shared", Kind::BiscuitMerge, "a({p}); check if tbase({p}) trusting {k}"),
        ("merge-shared", Kind::AuthorizerMerge, "a({p}); allow if tbase({p}) trusting {k}; check if tr($x), $x == {p}"),
        ("comments-and-whitespace", Kind::Block, "// c\n a( 1 ) ;\n /* x */ r( $x )<-q( $x ) ,$x>0 ;\ncheck   if q($x)"),
        ("comments-and-whitespace", Kind::Authorizer, "// c\n a( 1 ) ;\n allow  if  a( 1 ) ; /* y */ deny if true;"),
        ("empty", Kind::Block, ""),
        ("empty", Kind::Authorizer, ""),
        ("empty", Kind::Biscuit, "// nothing"),
    ];
    for (name, kind, src) in docs {
        let uses_p = src.contains("{p}");
        let uses_k = src.contains("{k}");
        let vals: Vec<(String, Term)> = if uses_p { typed.iter().cloned().chain(named_strings.iter().take(3).cloned()).collect() } else { vec![("none".into(), Term::Null)] };
        for (vn, v) in vals {
            for native in [false, true] {
                if native && (!uses_p || native_expr(&v).is_none()) {
                    continue;
                }
                for in_scope in [false, true] {
                    if in_scope && !uses_p && !uses_k {
                        continue;
                    }
                    let params = if uses_p { vec![("p".to_string(), v.clone(), native)] } else { vec![] };
                    let scope_params = if uses_k { vec![("k".to_string(), 1usize)] } else { vec![] };
                    let vclass = if vn.starts_with("string:") { "string" } else { &vn };
                    push(&mut out, Case { family: "document".into(), class: format!("{name}/{vclass}"), kind, src: src.to_string(), params, scope_params, in_scope, swap: false });
                }
            }
        }
    }
    // F6: parameter expressions are evaluated in the caller's scope: with variables a and b in scope,
    // `a = b.clone(), b = a.clone()` swaps them (the macros bind all parameters in parallel)
    for (kind, src) in [
        (Kind::Fact, "p({a}, {b})"),
        (Kind::Rule, "r({a}) <- q($x), $x == {b}"),
        (Kind::Check, "check if q({a}) or q($x), $x == {b}"),
        (Kind::Policy, "allow if q({a}), q({b})"),
        (Kind::Block, "p({a}, {b}); check if q({b})"),
        (Kind::Biscuit, "p({a}); p2({b}, {a})"),
        (Kind::Authorizer, "p({a}, {b}); allow if p({b}, {a}); deny if true"),
        (Kind::BlockMerge, "p({a}, {b})"),
        (Kind::BiscuitMerge, "p({b}, {a})"),
        (Kind::AuthorizerMerge, "p({a}, {b}); allow if p(1, \"x\")"),
    ] {
        for (va, vb) in [(b::int(1), b::string("x")), (b::string("x"), b::int(1)), (Term::Bool(true), Term::Null)] {
            // params holds what each parameter must end up bound to
            push(&mut out, Case { family: "binding-scope".into(), class: "swap".into(), kind, src: src.to_string(), params: vec![("a".into(), va.clone(), false), ("b".into(), vb.clone(), false)], scope_params: vec![], in_scope: false, swap: true });
        }
    }
    (out, not_expressible)
}

// ------------------------------------------------------------------ generated crate

fn gen_root() -> PathBuf {
    // next to the harness target directory of this run: outside /repo, not under /tmp
    let target = std::env::var("CARGO_TARGET_DIR").map(PathBuf::from).unwrap_or_else(|_| {
        let exe = std::env::current_exe().unwrap();
        // <target>/<variant>/release/vharness
        exe.parent().unwrap().parent().unwrap().to_path_buf()
    });
    target.parent().unwrap_or(Path::new("/verif/target")).join("c18gen")
}

const BINS: usize = 16;

fn write_crate(root: &Path, cases: &[Case], skip: &std::collections::HashSet<usize>) -> Vec<Vec<usize>> {
    let _ = std::fs::remove_dir_all(root.join("src"));
    std::fs::create_dir_all(root.join("src/bin")).unwrap();
    std::fs::create_dir_all(root.join(".cargo")).unwrap();
    std::fs::write(root.join(".cargo/config.toml"), "[net]\noffline = true\n").unwrap();
    let repo = repo_root();
    std::fs::write(
        root.join("Cargo.toml"),
        format!(
            "[package]\nname = \"c18gen\"\nversion = \"0.0.0\"\nedition = \"2021\"\n\n[workspace]\n\n[dependencies]\nbiscuit-auth = {{ path = \"{repo}/biscuit-auth\" }}\nrand = \"0.8\"\n\n[profile.dev]\nopt-level = 0\ndebug = false\nincremental = false\n\n[profile.dev.package.\"*\"]\nopt-level = 1\n"
        ),
    )
    .unwrap();
    if !root.join("Cargo.lock").exists() {
        let lock = PathBuf::from(verif_root()).join("harness/Cargo.lock");
        std::fs::copy(lock, root.join("Cargo.lock")).unwrap();
    }
    std::fs::write(root.join("src/lib.rs"), SUPPORT).unwrap();
    // one case per line; line number -> case id
    let mut line_maps = vec![];
    for bin in 0..BINS {
        let mut text = String::new();
        text.push_str("#![allow(unused_imports, unused_variables, unused_braces, unused_parens)]\nuse biscuit_auth::macros::*;\nuse c18gen::*;\n");
        let mut fns: Vec<String> = vec![];
        let mut lines: Vec<usize> = vec![usize::MAX; 3];
        for (id, c) in cases.iter().enumerate() {
            if id % BINS != bin || skip.contains(&id) {
                continue;
            }
            text.push_str(&format!("fn c{id}() {}\n", emit(id, c)));
            lines.push(id);
            fns.push(format!("c{id}();"));
        }
        text.push_str("fn main() {\n    quiet();\n");
        for chunk in fns.chunks(50) {
            text.push_str(&format!("    {}\n", chunk.join(" ")));
        }
        text.push_str("    println!(\"DONE\");\n}\n");
        std::fs::write(root.join(format!("src/bin/g{bin:02}.rs")), text).unwrap();
        line_maps.push(lines);
    }
    line_maps
}

fn cargo_build(root: &Path) -> (bool, String) {
    let out = std::process::Command::new("cargo")
        .args(["build", "--offline", "--bins", "--message-format=short", "--keep-going"])
        .current_dir(root)
        .env("CARGO_TARGET_DIR", root.join("target"))
        .env("CARGO_NET_OFFLINE", "true")
        .env_remove("RUSTFLAGS")
        .output()
        .expect("cargo");
    (out.status.success(), String::from_utf8_lossy(&out.stderr).to_string())
}

pub fn run(tier: Tier) {
    let ctx = Ctx::new("C18", tier);
    let (cases, not_expressible) = cases(tier);
    let root = gen_root();
    std::fs::create_dir_all(&root).unwrap();
    let mut skip: std::collections::HashSet<usize> = Default::default();
    let mut compile_rounds = 0usize;
    let mut uncompilable = 0usize;
    let started = std::time::Instant::now();
    loop {
        compile_rounds += 1;
        let line_maps = write_crate(&root, &cases, &skip);
        let (ok, log) = cargo_build(&root);
        if ok {
            break;
        }
        // attribute every error to the case on that line
        let re = regex::Regex::new(r"src/bin/g(\d+)\.rs:(\d+):\d+: error(.*)").unwrap();
        let mut found = 0usize;
        for cap in re.captures_iter(&log) {
            let bin: usize = cap[1].parse().unwrap();
            let line: usize = cap[2].parse().unwrap();
            if let Some(id) = line_maps.get(bin).and_then(|m| m.get(line - 1)).copied().filter(|x| *x != usize::MAX) {
                if skip.insert(id) {
                    found += 1;
                    uncompilable += 1;
                    let c = &cases[id];
                    let msg = cap[3].to_string();
                    ctx.violation_lazy(format!("C18/macro-expansion-does-not-compile/{}/{}/{}", c.kind.name(), c.family, c.class), || json!({"macro": c.kind.name(), "source": c.src, "parameters": format!("{:?}", c.params), "scope_parameters": format!("{:?}", c.scope_params), "rustc": msg}));
                }
            }
        }
        if found == 0 || compile_rounds > 6 {
            let tail: String = log.lines().rev().take(40).collect::<Vec<_>>().into_iter().rev().collect::<Vec<_>>().join("\n");
            eprintln!("MACHINERY: the generated crate does not build and the errors cannot be attributed to cases:\n{tail}");
            std::process::exit(2);
        }
    }
    let build_secs = started.elapsed().as_secs_f64();
    // run
    let outputs: Vec<(usize, String, bool)> = (0..BINS)
        .into_par_iter()
        .map(|bin| {
            let exe = root.join(format!("target/debug/g{bin:02}"));
            let out = std::process::Command::new(&exe).output().expect("run generated binary");
            (bin, String::from_utf8_lossy(&out.stdout).to_string(), out.status.success())
        })
        .collect();
    let mut ok = 0usize;
    let mut both_refuse = 0usize;
    let mut diffs = 0usize;
    let mut seen: std::collections::HashSet<usize> = Default::default();
    let mut per_family: BTreeMap<String, usize> = BTreeMap::new();
    let mut per_kind: BTreeMap<String, usize> = BTreeMap::new();
    let mut refusals: BTreeMap<String, usize> = BTreeMap::new();
    let mut distinct: std::collections::HashSet<[u8; 16]> = Default::default();
    let mut samples: Vec<serde_json::Value> = vec![];
    for (bin, text, success) in &outputs {
        if !success || !text.lines().any(|l| l == "DONE") {
            eprintln!("MACHINERY: generated binary g{bin:02} did not finish");
            std::process::exit(2);
        }
        for l in text.lines() {
            let parts: Vec<&str> = l.splitn(4, '\t').collect();
            if parts.len() < 3 || parts[0] != "R" {
                continue;
            }
            let id: usize = parts[1].parse().unwrap();
            let c = &cases[id];
            seen.insert(id);
            *per_family.entry(c.family.clone()).or_default() += 1;
            *per_kind.entry(c.kind.name().to_string()).or_default() += 1;
            match parts[2] {
                "OK" => {
                    ok += 1;
                    distinct.insert(fingerprint(parts.get(3).unwrap_or(&"").as_bytes()));
                    if samples.len() < 10 && ok % 577 == 1 {
                        samples.push(json!({"macro": c.kind.name(), "source": c.src, "parameters": format!("{:?}", c.params), "built": parts.get(3).unwrap_or(&"")}));
                    }
                }
                "BOTH-REFUSE" => {
                    both_refuse += 1;
                    *refusals.entry(format!("{}/{}", c.family, c.class.split('/').take(2).collect::<Vec<_>>().join("/"))).or_default() += 1;
                }
                _ => {
                    diffs += 1;
                    let detail = parts.get(3).unwrap_or(&"").to_string();
                    let what = detail.split(':').next().unwrap_or("").to_string();
                    ctx.violation_lazy(format!("C18/{}/{}/{}/{}", what, c.kind.name(), c.family, c.class), || json!({"macro": c.kind.name(), "source": c.src, "parameters": format!("{:?}", c.params), "scope_parameters": format!("{:?}", c.scope_params), "in_scope_binding": c.in_scope, "difference": detail}));
                }
            }
        }
    }
    let expected = cases.len() - skip.len();
    if seen.len() != expected {
        eprintln!("MACHINERY: {} cases reported, {} expected", seen.len(), expected);
        std::process::exit(2);
    }
    let cov = json!({
        "cases": cases.len(),
        "inputs_enumerated": cases.len(),
        "evaluations": seen.len(),
        "distinct_nontrivial": distinct.len(),
        "samples": samples,
        "equal": ok,
        "refused_by_both_paths": both_refuse,
        "refused_by_both_paths_per_class": refusals,
        "different": diffs,
        "macro_expansions_that_do_not_compile": uncompilable,
        "sources_not_accepted_by_the_parser (not expressible, skipped)": not_expressible,
        "per_family": per_family,
        "per_macro": per_kind,
        "compile_rounds": compile_rounds,
        "build_seconds": build_secs,
        "exhaustive": true,
        "rule": "for every generated case (every term kind and nesting of C14 in fact / rule head+body / expression positions; every expression derivation up to the depth bound: all infix operators, methods, unaries, closures, nested; every scope set incl. key literals of both algorithms and scope parameters; every parameter position of the C20 templates x typed values (as native Rust values and as Term values, bound explicitly and from in-scope variables) x hostile strings; multi-item documents sharing parameters; merge forms onto a non-empty target) a macro invocation is generated into a crate compiled against the current tree; the value it builds is compared with the run-time path (try_from + set / set_scope for items, code_with_params for builders) given the same text and values: == for items, Display / dump_code, block bytes appended to a fixed token with fixed keys, token bytes built with a fixed RNG, authorization result and world on a fixed two-block token. A macro whose expansion does not compile, or one path refusing what the other builds, is a difference.",
    });
    ctx.finish("exploration", cov, vec!["macro invocations with an unused or missing parameter do not compile by design and are not generated".into(), "sources the parser refuses cannot be given to a macro; their number is reported".into()]);
}

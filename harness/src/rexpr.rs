//! R-expr: reference evaluator for Biscuit expressions, written from the
//! specification. Values carry strings inline (no interning), integer
//! arithmetic is done in i128 with an explicit range check, the operator table is
//! an explicit (operator x type x type) match.
use biscuit_auth::builder as b;
use std::collections::{BTreeMap, BTreeSet};

#[derive(Clone, Debug, PartialEq, Eq, PartialOrd, Ord, Hash)]
pub enum V {
    Int(i64),
    Str(String),
    Date(u64),
    Bytes(Vec<u8>),
    Bool(bool),
    Set(BTreeSet<V>),
    Null,
    Array(Vec<V>),
    Map(BTreeMap<MK, V>),
}

#[derive(Clone, Debug, PartialEq, Eq, PartialOrd, Ord, Hash)]
pub enum MK {
    Int(i64),
    Str(String),
}

#[derive(Clone, Debug, PartialEq, Eq)]
pub enum RErr {
    Overflow,
    DivideByZero,
    Type,
    Stack,
    UnknownVariable,
    Shadowed,
    Extern,
    /// the outcome legitimately depends on element evaluation order
    /// (an erroring element next to a deciding one in `all` / `any`)
    Ambiguous(Box<V>),
}

pub type R = Result<V, RErr>;

/// one element of an operation sequence (variables by name, strings inline)
#[derive(Clone, Debug, PartialEq, Eq)]
pub enum ROp {
    Val(V),
    Var(String),
    Un(b::Unary),
    Bin(b::Binary),
    Closure(Vec<String>, Vec<ROp>),
}

pub fn term_to_v(t: &b::Term) -> Option<V> {
    Some(match t {
        b::Term::Integer(i) => V::Int(*i),
        b::Term::Str(s) => V::Str(s.clone()),
        b::Term::Date(d) => V::Date(*d),
        b::Term::Bytes(x) => V::Bytes(x.clone()),
        b::Term::Bool(x) => V::Bool(*x),
        b::Term::Null => V::Null,
        b::Term::Set(s) => V::Set(s.iter().map(term_to_v).collect::<Option<_>>()?),
        b::Term::Array(a) => V::Array(a.iter().map(term_to_v).collect::<Option<_>>()?),
        b::Term::Map(m) => V::Map(
            m.iter()
                .map(|(k, v)| {
                    let k = match k {
                        b::MapKey::Integer(i) => MK::Int(*i),
                        b::MapKey::Str(s) => MK::Str(s.clone()),
                        b::MapKey::Parameter(_) => return None,
                    };
                    Some((k, term_to_v(v)?))
                })
                .collect::<Option<_>>()?,
        ),
        b::Term::Variable(_) | b::Term::Parameter(_) => return None,
    })
}

pub fn v_to_term(v: &V) -> b::Term {
    match v {
        V::Int(i) => b::Term::Integer(*i),
        V::Str(s) => b::Term::Str(s.clone()),
        V::Date(d) => b::Term::Date(*d),
        V::Bytes(x) => b::Term::Bytes(x.clone()),
        V::Bool(x) => b::Term::Bool(*x),
        V::Null => b::Term::Null,
        V::Set(s) => b::Term::Set(s.iter().map(v_to_term).collect()),
        V::Array(a) => b::Term::Array(a.iter().map(v_to_term).collect()),
        V::Map(m) => b::Term::Map(
            m.iter()
                .map(|(k, v)| {
                    (
                        match k {
                            MK::Int(i) => b::MapKey::Integer(*i),
                            MK::Str(s) => b::MapKey::Str(s.clone()),
                        },
                        v_to_term(v),
                    )
                })
                .collect(),
        ),
    }
}

pub fn ops_from_builder(ops: &[b::Op]) -> Option<Vec<ROp>> {
    ops.iter()
        .map(|op| {
            Some(match op {
                b::Op::Value(b::Term::Variable(v)) => ROp::Var(v.clone()),
                b::Op::Value(t) => ROp::Val(term_to_v(t)?),
                b::Op::Unary(u) => ROp::Un(u.clone()),
                b::Op::Binary(x) => ROp::Bin(x.clone()),
                b::Op::Closure(p, body) => ROp::Closure(p.clone(), ops_from_builder(body)?),
            })
        })
        .collect()
}

pub fn ops_to_builder(ops: &[ROp]) -> Vec<b::Op> {
    ops.iter()
        .map(|op| match op {
            ROp::Val(v) => b::Op::Value(v_to_term(v)),
            ROp::Var(n) => b::Op::Value(b::Term::Variable(n.clone())),
            ROp::Un(u) => b::Op::Unary(u.clone()),
            ROp::Bin(x) => b::Op::Binary(x.clone()),
            ROp::Closure(p, body) => b::Op::Closure(p.clone(), ops_to_builder(body)),
        })
        .collect()
}

pub type Extern = dyn Fn(&str, &V, Option<&V>) -> Result<V, ()>;

pub struct Env<'a> {
    pub vars: BTreeMap<String, V>,
    pub ext: Option<&'a Extern>,
}

fn type_name(v: &V) -> &'static str {
    match v {
        V::Int(_) => "integer",
        V::Str(_) => "string",
        V::Date(_) => "date",
        V::Bytes(_) => "bytes",
        V::Bool(_) => "bool",
        V::Set(_) => "set",
        V::Null => "null",
        V::Array(_) => "array",
        V::Map(_) => "map",
    }
}

fn same_type(a: &V, b: &V) -> bool {
    type_name(a) == type_name(b)
}

fn arith(op: &b::Binary, i: i64, j: i64) -> R {
    let (a, c) = (i as i128, j as i128);
    let r: i128 = match op {
        b::Binary::Add => a + c,
        b::Binary::Sub => a - c,
        b::Binary::Mul => a * c,
        b::Binary::Div => {
            if c == 0 {
                return Err(RErr::DivideByZero);
            }
            a / c
        }
        _ => unreachable!(),
    };
    if r < i64::MIN as i128 || r > i64::MAX as i128 {
        // i64::MIN / -1
        return Err(RErr::Overflow);
    }
    Ok(V::Int(r as i64))
}

fn unary(u: &b::Unary, v: V, env: &Env) -> R {
    use b::Unary::*;
    match (u, v) {
        (Negate, V::Bool(x)) => Ok(V::Bool(!x)),
        (Parens, v) => Ok(v),
        (Length, V::Str(s)) => Ok(V::Int(s.as_bytes().len() as i64)),
        (Length, V::Bytes(x)) => Ok(V::Int(x.len() as i64)),
        (Length, V::Set(s)) => Ok(V::Int(s.len() as i64)),
        (Length, V::Array(a)) => Ok(V::Int(a.len() as i64)),
        (Length, V::Map(m)) => Ok(V::Int(m.len() as i64)),
        (TypeOf, v) => Ok(V::Str(type_name(&v).to_string())),
        (Ffi(name), v) => match env.ext {
            Some(f) => f(name, &v, None).map_err(|_| RErr::Extern),
            None => Err(RErr::Extern),
        },
        _ => Err(RErr::Type),
    }
}

fn binary(op: &b::Binary, l: V, r: V, env: &Env) -> R {
    use b::Binary::*;
    match op {
        LessThan | GreaterThan | LessOrEqual | GreaterOrEqual => {
            let ord = match (&l, &r) {
                (V::Int(a), V::Int(c)) => a.cmp(c),
                (V::Date(a), V::Date(c)) => a.cmp(c),
                _ => return Err(RErr::Type),
            };
            use std::cmp::Ordering::*;
            Ok(V::Bool(match op {
                LessThan => ord == Less,
                GreaterThan => ord == Greater,
                LessOrEqual => ord != Greater,
                GreaterOrEqual => ord != Less,
                _ => unreachable!(),
            }))
        }
        Equal | NotEqual => {
            if !same_type(&l, &r) {
                return Err(RErr::Type);
            }
            Ok(V::Bool((l == r) == matches!(op, Equal)))
        }
        HeterogeneousEqual | HeterogeneousNotEqual => {
            let eq = same_type(&l, &r) && l == r;
            Ok(V::Bool(eq == matches!(op, HeterogeneousEqual)))
        }
        Contains => match (l, r) {
            (V::Str(s), V::Str(p)) => Ok(V::Bool(s.contains(&p))),
            (V::Set(s), V::Set(o)) => Ok(V::Bool(s.is_superset(&o))),
            (V::Set(s), x @ (V::Int(_) | V::Date(_) | V::Bool(_) | V::Str(_) | V::Bytes(_))) => {
                Ok(V::Bool(s.contains(&x)))
            }
            (V::Array(a), x) => Ok(V::Bool(a.iter().any(|e| *e == x))),
            (V::Map(m), x) => Ok(V::Bool(match x {
                V::Int(i) => m.contains_key(&MK::Int(i)),
                V::Str(s) => m.contains_key(&MK::Str(s)),
                _ => false,
            })),
            _ => Err(RErr::Type),
        },
        Prefix => match (l, r) {
            (V::Str(s), V::Str(p)) => Ok(V::Bool(s.starts_with(&p))),
            (V::Array(a), V::Array(p)) => Ok(V::Bool(a.len() >= p.len() && a[..p.len()] == p[..])),
            _ => Err(RErr::Type),
        },
        Suffix => match (l, r) {
            (V::Str(s), V::Str(p)) => Ok(V::Bool(s.ends_with(&p))),
            (V::Array(a), V::Array(p)) => {
                Ok(V::Bool(a.len() >= p.len() && a[a.len() - p.len()..] == p[..]))
            }
            _ => Err(RErr::Type),
        },
        Regex => match (l, r) {
            // regular expression semantics are delegated to the `regex` crate (as in DESIGN C06);
            // an invalid pattern matches nothing
            (V::Str(s), V::Str(p)) => Ok(V::Bool(
                regex::Regex::new(&p).map(|re| re.is_match(&s)).unwrap_or(false),
            )),
            _ => Err(RErr::Type),
        },
        Add => match (l, r) {
            (V::Int(a), V::Int(c)) => arith(op, a, c),
            (V::Str(a), V::Str(c)) => Ok(V::Str(format!("{a}{c}"))),
            _ => Err(RErr::Type),
        },
        Sub | Mul | Div => match (l, r) {
            (V::Int(a), V::Int(c)) => arith(op, a, c),
            _ => Err(RErr::Type),
        },
        And | Or => match (l, r) {
            (V::Bool(a), V::Bool(c)) => Ok(V::Bool(if matches!(op, And) { a && c } else { a || c })),
            _ => Err(RErr::Type),
        },
        Intersection | Union => match (l, r) {
            (V::Set(a), V::Set(c)) => Ok(V::Set(if matches!(op, Union) {
                a.union(&c).cloned().collect()
            } else {
                a.intersection(&c).cloned().collect()
            })),
            _ => Err(RErr::Type),
        },
        BitwiseAnd | BitwiseOr | BitwiseXor => match (l, r) {
            (V::Int(a), V::Int(c)) => Ok(V::Int(match op {
                BitwiseAnd => a & c,
                BitwiseOr => a | c,
                _ => a ^ c,
            })),
            _ => Err(RErr::Type),
        },
        Get => match (l, r) {
            (V::Array(a), V::Int(i)) => Ok(if i >= 0 && (i as u128) < a.len() as u128 {
                a[i as usize].clone()
            } else {
                V::Null
            }),
            (V::Map(m), V::Int(i)) => Ok(m.get(&MK::Int(i)).cloned().unwrap_or(V::Null)),
            (V::Map(m), V::Str(s)) => Ok(m.get(&MK::Str(s)).cloned().unwrap_or(V::Null)),
            _ => Err(RErr::Type),
        },
        Ffi(name) => match env.ext {
            Some(f) => f(name, &l, Some(&r)).map_err(|_| RErr::Extern),
            None => Err(RErr::Extern),
        },
        // closure-taking operators with a plain right operand
        LazyAnd | LazyOr | All | Any => Err(RErr::Type),
    }
}

fn with_closure(op: &b::Binary, l: V, params: &[String], body: &[ROp], env: &Env) -> R {
    use b::Binary::*;
    // a closure parameter may not re-use a name that is already bound
    if params.iter().any(|p| env.vars.contains_key(p)) {
        return Err(RErr::Shadowed);
    }
    match (op, l, params) {
        (LazyAnd, V::Bool(false), []) => Ok(V::Bool(false)),
        (LazyOr, V::Bool(true), []) => Ok(V::Bool(true)),
        (LazyAnd, V::Bool(true), []) | (LazyOr, V::Bool(false), []) => match eval(body, env)? {
            V::Bool(x) => Ok(V::Bool(x)),
            _ => Err(RErr::Type),
        },
        (All | Any, coll @ (V::Set(_) | V::Array(_) | V::Map(_)), [p]) => {
            let elems: Vec<V> = match coll {
                V::Set(s) => s.into_iter().collect(),
                V::Array(a) => a,
                V::Map(m) => m
                    .into_iter()
                    .map(|(k, v)| {
                        V::Array(vec![
                            match k {
                                MK::Int(i) => V::Int(i),
                                MK::Str(s) => V::Str(s),
                            },
                            v,
                        ])
                    })
                    .collect(),
                _ => unreachable!(),
            };
            let deciding = matches!(op, Any);
            let mut results = vec![];
            for e in elems {
                let mut vars = env.vars.clone();
                vars.insert(p.clone(), e);
                let sub = Env { vars, ext: env.ext };
                results.push(match eval(body, &sub) {
                    Ok(V::Bool(x)) => Ok(x),
                    Ok(_) => Err(RErr::Type),
                    Err(e) => Err(e),
                });
            }
            let any_err = results.iter().find_map(|r| r.clone().err());
            let decided = results.iter().any(|r| *r == Ok(deciding));
            match (any_err, decided) {
                (None, d) => Ok(V::Bool(if deciding { d } else { !d })),
                (Some(e), false) => Err(e),
                // an erroring element and a deciding element: order decides
                (Some(_), true) => {
                    // if the first deciding element precedes every error in *every* order the
                    // outcome would be fixed; with an unordered set it is not
                    Err(RErr::Ambiguous(Box::new(V::Bool(deciding))))
                }
            }
        }
        _ => Err(RErr::Type),
    }
}

enum Slot {
    T(V),
    C(Vec<String>, Vec<ROp>),
}

/// evaluates an operation sequence
pub fn eval(ops: &[ROp], env: &Env) -> R {
    let mut stack: Vec<Slot> = vec![];
    for op in ops {
        match op {
            ROp::Val(v) => stack.push(Slot::T(v.clone())),
            ROp::Var(n) => match env.vars.get(n) {
                Some(v) => stack.push(Slot::T(v.clone())),
                None => return Err(RErr::UnknownVariable),
            },
            ROp::Un(u) => match stack.pop() {
                Some(Slot::T(v)) => stack.push(Slot::T(unary(u, v, env)?)),
                _ => return Err(RErr::Stack),
            },
            ROp::Bin(bop) => {
                let r = stack.pop();
                let l = stack.pop();
                match (l, r) {
                    (Some(Slot::T(l)), Some(Slot::T(r))) => stack.push(Slot::T(binary(bop, l, r, env)?)),
                    (Some(Slot::T(l)), Some(Slot::C(p, body))) => {
                        stack.push(Slot::T(with_closure(bop, l, &p, &body, env)?))
                    }
                    _ => return Err(RErr::Stack),
                }
            }
            ROp::Closure(p, body) => stack.push(Slot::C(p.clone(), body.clone())),
        }
    }
    if stack.len() != 1 {
        return Err(RErr::Stack);
    }
    match stack.pop() {
        Some(Slot::T(v)) => Ok(v),
        _ => Err(RErr::Stack),
    }
}

//! C20 — parameters are data, never code.
use crate::c14::{hostile_strings, Item};
use crate::common::*;
use crate::tok::*;
use biscuit_auth::builder as b;
use biscuit_auth::builder::{Convert, MapKey, Term};
use biscuit_auth::datalog::SymbolTable;
use biscuit_auth::{AuthorizerBuilder, PublicKey};
use rayon::prelude::*;
use serde_json::json;
use std::collections::{BTreeMap, BTreeSet, HashMap};
use std::convert::TryFrom;
use std::sync::atomic::{AtomicUsize, Ordering};

#[derive(Clone, Debug)]
pub struct Template {
    pub name: &'static str,
    pub kind: &'static str, // fact | rule | check | policy
    pub src: &'static str,
    pub term_params: &'static [&'static str],
    pub scope_params: &'static [&'static str],
    /// a parameter used as a map key (only integers and strings can be bound there)
    pub key_params: &'static [&'static str],
}

pub fn templates() -> Vec<Template> {
    let t = |name, kind, src, term_params, scope_params, key_params| Template { name, kind, src, term_params, scope_params, key_params };
    vec![
        t("fact/term", "fact", "p({a})", &["a"], &[], &[]),
        t("fact/set-members", "fact", "p({{a}, {b}})", &["a", "b"], &[], &[]),
        t("fact/array-member", "fact", "p([1, {a}])", &["a"], &[], &[]),
        t("fact/map-value", "fact", "p({\"k\": {a}})", &["a"], &[], &[]),
        t("fact/map-key", "fact", "p({{a}: 1})", &["a"], &[], &["a"]),
        t("fact/nested-two-levels", "fact", "p([{\"k\": [{a}]}])", &["a"], &[], &[]),
        t("fact/map-param-key-and-param-value", "fact", "p({{a}: {b}})", &["a", "b"], &[], &["a"]),
        t("fact/map-param-key-nested-param-value", "fact", "p({{a}: [1, {b}], \"k\": {{c}}})", &["a", "b", "c"], &[], &["a"]),
        t("rule/body-map-param-key-and-param-value", "rule", "r($x) <- q($x, {{a}: {b}}), {{a}: {b}}.length() > 0", &["a", "b"], &[], &["a"]),
        t("fact/two-params-one-twice", "fact", "p({a}, {b}, {a})", &["a", "b"], &[], &[]),
        t("rule/head", "rule", "r({a}) <- q($x)", &["a"], &[], &[]),
        t("rule/body", "rule", "r($x) <- q($x, {a})", &["a"], &[], &[]),
        t("rule/head-nested", "rule", "r([{a}]) <- q($x)", &["a"], &[], &[]),
        t("rule/body-nested", "rule", "r($x) <- q($x, {\"k\": {a}})", &["a"], &[], &[]),
        t("rule/body-map-key", "rule", "r($x) <- q($x, {{a}: 1})", &["a"], &[], &["a"]),
        t("rule/expression-operand", "rule", "r($x) <- q($x), $x == {a}", &["a"], &[], &[]),
        t("rule/expression-collection-literal", "rule", "r($x) <- q($x), [{a}].contains($x)", &["a"], &[], &[]),
        t("rule/expression-map-literal", "rule", "r($x) <- q($x), {\"k\": {a}}.get(\"k\") == $x", &["a"], &[], &[]),
        t("rule/closure-body", "rule", "r($x) <- q($x), [1, 2].any($p -> $p == {a})", &["a"], &[], &[]),
        t("rule/nested-closure-body", "rule", "r($x) <- q($x), [1].all($p -> [2].any($q -> $q == {a} || $p == {b}))", &["a", "b"], &[], &[]),
        t("rule/lazy-operand", "rule", "r($x) <- q($x), true && $x == {a}", &["a"], &[], &[]),
        t("rule/scope", "rule", "r($x) <- q($x) trusting {k}", &[], &["k"], &[]),
        t("rule/term-and-scope", "rule", "r($x, {a}) <- q($x), $x != {a} trusting authority, {k}", &["a"], &["k"], &[]),
        t("rule/same-name-term-and-scope", "rule", "r({k}) <- q($x) trusting {k}", &["k"], &["k"], &[]),
        t("check/same-name-term-and-scope", "check", "check if q({k}) trusting {k}", &["k"], &["k"], &[]),
        t("policy/same-name-term-and-scope", "policy", "allow if q($x), $x == {k} trusting authority, {k}", &["k"], &["k"], &[]),
        t("check/body", "check", "check if q({a})", &["a"], &[], &[]),
        t("check/body-nested", "check", "check if q([{a}])", &["a"], &[], &[]),
        t("check/expression", "check", "check if q($x), $x == {a}", &["a"], &[], &[]),
        t("check/closure", "check", "check if q($x), $x.any($p -> $p == {a})", &["a"], &[], &[]),
        t("check/closure-argument-named-like-the-parameter", "check", "check if q($x), $x.any($a -> $a == {a})", &["a"], &[], &[]),
        t("rule/nested-closure-arguments-named-like-the-parameters", "rule", "r($x) <- q($x), [1].all($a -> [2].any($b -> $b == {a} || $a == {b}))", &["a", "b"], &[], &[]),
        t("check/two-alternatives-same-param", "check", "check if q({a}) or r({a}, {b})", &["a", "b"], &[], &[]),
        t("check/all-expression-literal", "check", "check all q($x), {{a}}.contains($x)", &["a"], &[], &[]),
        t("check/reject-scope", "check", "reject if q($x) trusting {k}", &[], &["k"], &[]),
        t("check/two-alternatives-scopes", "check", "check if q($x) trusting {k} or r($x) trusting {k}, {l}", &[], &["k", "l"], &[]),
        t("policy/body", "policy", "allow if q({a})", &["a"], &[], &[]),
        t("policy/expression-nested", "policy", "deny if q($x), [{a}, {b}].contains($x)", &["a", "b"], &[], &[]),
        t("policy/scope", "policy", "allow if q($x) trusting {k}", &[], &["k"], &[]),
        t("policy/two-alternatives", "policy", "allow if q({a}) or r($x), $x == {a} trusting {k}", &["a"], &["k"], &[]),
    ]
}

pub fn values(tier: Tier) -> Vec<(String, Term)> {
    let mut v: Vec<(String, Term)> = vec![
        ("int".into(), b::int(-7)),
        ("date".into(), Term::Date(1_600_000_000)),
        ("bytes".into(), Term::Bytes(vec![1, 2])),
        ("bool".into(), Term::Bool(true)),
        ("set".into(), Term::Set([b::int(1), b::int(2)].into_iter().collect())),
        ("null".into(), Term::Null),
        ("array".into(), Term::Array(vec![b::int(1), b::string("x")])),
        ("map".into(), Term::Map([(MapKey::Str("k".into()), b::int(1))].into_iter().collect())),
    ];
    for s in ["plain", "a\"), admin(\"b", "\"; allow if true; //", "{p}", "$x", "\\", "line\nbreak", "x\") <- true; deny if true; r(\"", "ed25519/00", "", "trusting authority", "/* */"] {
        v.push((format!("string:{}", s.escape_debug()), b::string(s)));
    }
    for s in hostile_strings(tier.pick(3, 4)) {
        v.push((format!("string:{}", s.escape_debug()), b::string(&s)));
    }
    v
}

fn value_class(name: &str) -> &str {
    if name.starts_with("string:") {
        "string"
    } else {
        name
    }
}

// ---------------------------------------------------------------- reference substitution

fn sub_term(t: &Term, env: &HashMap<String, Term>) -> Option<Term> {
    Some(match t {
        Term::Parameter(n) => match env.get(n) {
            Some(v) => v.clone(),
            None => t.clone(),
        },
        Term::Set(s) => Term::Set(s.iter().map(|x| sub_term(x, env)).collect::<Option<_>>()?),
        Term::Array(a) => Term::Array(a.iter().map(|x| sub_term(x, env)).collect::<Option<_>>()?),
        Term::Map(m) => Term::Map(
            m.iter()
                .map(|(k, v)| {
                    let k = match k {
                        MapKey::Parameter(n) => match env.get(n) {
                            Some(Term::Integer(i)) => MapKey::Integer(*i),
                            Some(Term::Str(s)) => MapKey::Str(s.clone()),
                            Some(_) => return None, // not a valid key
                            None => k.clone(),
                        },
                        other => other.clone(),
                    };
                    Some((k, sub_term(v, env)?))
                })
                .collect::<Option<_>>()?,
        ),
        other => other.clone(),
    })
}
fn sub_ops(ops: &[b::Op], env: &HashMap<String, Term>) -> Option<Vec<b::Op>> {
    ops.iter()
        .map(|o| {
            Some(match o {
                b::Op::Value(t) => b::Op::Value(sub_term(t, env)?),
                b::Op::Closure(p, body) => b::Op::Closure(p.clone(), sub_ops(body, env)?),
                other => other.clone(),
            })
        })
        .collect()
}
fn sub_pred(p: &b::Predicate, env: &HashMap<String, Term>) -> Option<b::Predicate> {
    Some(b::Predicate { name: p.name.clone(), terms: p.terms.iter().map(|t| sub_term(t, env)).collect::<Option<_>>()? })
}
fn sub_rule(r: &b::Rule, env: &HashMap<String, Term>, keys: &HashMap<String, PublicKey>) -> Option<b::Rule> {
    Some(b::Rule::new(
        sub_pred(&r.head, env)?,
        r.body.iter().map(|p| sub_pred(p, env)).collect::<Option<_>>()?,
        r.expressions.iter().map(|e| sub_ops(&e.ops, env).map(|ops| b::Expression { ops })).collect::<Option<_>>()?,
        r.scopes
            .iter()
            .map(|s| match s {
                b::Scope::Parameter(n) => keys.get(n).map(|k| b::Scope::PublicKey(*k)).unwrap_or(s.clone()),
                o => o.clone(),
            })
            .collect(),
    ))
}

fn has_params_term(t: &Term) -> bool {
    match t {
        Term::Parameter(_) => true,
        Term::Set(s) => s.iter().any(has_params_term),
        Term::Array(a) => a.iter().any(has_params_term),
        Term::Map(m) => m.iter().any(|(k, v)| matches!(k, MapKey::Parameter(_)) || has_params_term(v)),
        _ => false,
    }
}

/// the real item after conversion to the Datalog form and back (parameters applied)
fn realize(item: &Item) -> Result<Item, String> {
    guard(|| {
        let mut s = SymbolTable::new();
        match item {
            Item::Fact(f) => {
                let d = f.convert(&mut s);
                b::Fact::convert_from(&d, &s).map(Item::Fact).map_err(|e| format!("{e:?}"))
            }
            Item::Rule(r) => {
                let d = r.convert(&mut s);
                b::Rule::convert_from(&d, &s).map(Item::Rule).map_err(|e| format!("{e:?}"))
            }
            Item::Check(c) => {
                let d = c.convert(&mut s);
                b::Check::convert_from(&d, &s).map(Item::Check).map_err(|e| format!("{e:?}"))
            }
            Item::Policy(p) => {
                let qs: Result<Vec<b::Rule>, String> = p
                    .queries
                    .iter()
                    .map(|q| {
                        let d = q.convert(&mut s);
                        b::Rule::convert_from(&d, &s).map_err(|e| format!("{e:?}"))
                    })
                    .collect();
                qs.map(|queries| Item::Policy(b::Policy { queries, kind: p.kind.clone() }))
            }
        }
    })
    .unwrap_or_else(|p| Err(format!("PANIC {p}")))
}

/// the same item rebuilt through the public constructors (Fact::new / Rule::new), which collect the parameter
/// names themselves instead of taking the parser's list
fn reconstruct(item: &Item) -> Item {
    let rule = |r: &b::Rule| b::Rule::new(r.head.clone(), r.body.clone(), r.expressions.clone(), r.scopes.clone());
    match item {
        Item::Fact(f) => Item::Fact(b::Fact::new(f.predicate.name.clone(), f.predicate.terms.clone())),
        Item::Rule(r) => Item::Rule(rule(r)),
        Item::Check(c) => Item::Check(b::Check { queries: c.queries.iter().map(rule).collect(), kind: c.kind.clone() }),
        Item::Policy(p) => Item::Policy(b::Policy { queries: p.queries.iter().map(rule).collect(), kind: p.kind.clone() }),
    }
}

pub fn parse_item(kind: &str, src: &str) -> Result<Item, String> {
    match kind {
        "fact" => b::Fact::try_from(src).map(Item::Fact).map_err(|e| format!("{e:?}")),
        "rule" => b::Rule::try_from(src).map(Item::Rule).map_err(|e| format!("{e:?}")),
        "check" => b::Check::try_from(src).map(Item::Check).map_err(|e| format!("{e:?}")),
        _ => b::Policy::try_from(src).map(Item::Policy).map_err(|e| format!("{e:?}")),
    }
}

pub fn expected_of(item: &Item, env: &HashMap<String, Term>, keys: &HashMap<String, PublicKey>) -> Option<Item> {
    Some(match item {
        Item::Fact(f) => Item::Fact(b::Fact::new(f.predicate.name.clone(), sub_pred(&f.predicate, env)?.terms)),
        Item::Rule(r) => Item::Rule(sub_rule(r, env, keys)?),
        Item::Check(c) => Item::Check(b::Check { queries: c.queries.iter().map(|q| sub_rule(q, env, keys)).collect::<Option<_>>()?, kind: c.kind.clone() }),
        Item::Policy(p) => Item::Policy(b::Policy { queries: p.queries.iter().map(|q| sub_rule(q, env, keys)).collect::<Option<_>>()?, kind: p.kind.clone() }),
    })
}

#[derive(Clone, Copy, Debug, PartialEq)]
enum Setter {
    Strict,
    Lenient,
}

pub fn set_term_strict(item: &mut Item, name: &str, v: &Term) -> Result<(), String> {
    set_term(item, name, v, Setter::Strict)
}

pub fn set_scope_strict(item: &mut Item, name: &str, k: PublicKey) -> Result<(), String> {
    set_scope(item, name, k, Setter::Strict)
}

fn set_term(item: &mut Item, name: &str, v: &Term, how: Setter) -> Result<(), String> {
    let r = match (item, how) {
        (Item::Fact(f), Setter::Strict) => f.set(name, v.clone()),
        (Item::Fact(f), Setter::Lenient) => f.set_lenient(name, v.clone()),
        (Item::Rule(r), Setter::Strict) => r.set(name, v.clone()),
        (Item::Rule(r), Setter::Lenient) => r.set_lenient(name, v.clone()),
        (Item::Check(c), Setter::Strict) => c.set(name, v.clone()),
        (Item::Check(c), Setter::Lenient) => c.set_lenient(name, v.clone()),
        (Item::Policy(p), Setter::Strict) => p.set(name, v.clone()),
        (Item::Policy(p), Setter::Lenient) => p.set_lenient(name, v.clone()),
    };
    r.map_err(|e| format!("{e:?}"))
}

fn set_scope(item: &mut Item, name: &str, k: PublicKey, how: Setter) -> Result<(), String> {
    let r = match (item, how) {
        (Item::Fact(_), _) => return Err("facts have no scopes".into()),
        (Item::Rule(r), Setter::Strict) => r.set_scope(name, k),
        (Item::Rule(r), Setter::Lenient) => r.set_scope_lenient(name, k),
        (Item::Check(c), Setter::Strict) => c.set_scope(name, k),
        (Item::Check(c), Setter::Lenient) => c.set_scope_lenient(name, k),
        (Item::Policy(p), Setter::Strict) => p.set_scope(name, k),
        (Item::Policy(p), Setter::Lenient) => p.set_scope_lenient(name, k),
    };
    r.map_err(|e| format!("{e:?}"))
}

/// adding an item to the builders: Ok / Err(message)
fn add_to_builders(item: &Item) -> Result<(), String> {
    guard(|| match item {
        Item::Fact(f) => b::BlockBuilder::new().fact(f.clone()).map(|_| ()).map_err(|e| format!("{e:?}")),
        Item::Rule(r) => b::BlockBuilder::new().rule(r.clone()).map(|_| ()).map_err(|e| format!("{e:?}")),
        Item::Check(c) => b::BlockBuilder::new().check(c.clone()).map(|_| ()).map_err(|e| format!("{e:?}")),
        Item::Policy(p) => AuthorizerBuilder::new().policy(p.clone()).map(|_| ()).map_err(|e| format!("{e:?}")),
    })
    .unwrap_or_else(|p| Err(format!("PANIC {p}")))
}

pub fn run(tier: Tier) {
    let ctx = Ctx::new("C20", tier);
    let temps = templates();
    let vals = values(tier);
    let keys: Vec<(&str, PublicKey)> = vec![("ed25519", k1().public()), ("secp256r1", k2().public())];
    let cases = AtomicUsize::new(0);
    let fully = AtomicUsize::new(0);
    let partial = AtomicUsize::new(0);
    let samples_out = Samples::new(6);

    let temps_paths: Vec<(&Template, &str)> = temps.iter().flat_map(|t| [(t, "parsed"), (t, "constructed")]).collect();
    temps_paths.par_iter().for_each(|(t, path)| {
        let base = match parse_item(t.kind, t.src) {
            Ok(i) => i,
            Err(e) => {
                ctx.violation(format!("C20/template-does-not-parse/{}", t.name), json!({"src": t.src, "error": e}));
                return;
            }
        };
        let base = if *path == "constructed" { reconstruct(&base) } else { base };
        let n_t = t.term_params.len();
        let n_s = t.scope_params.len();
        // value assignments: every value for the first parameter, a fixed second value for the others
        for (vi, (vname, v)) in vals.iter().enumerate() {
            for (kname, k) in &keys {
                if n_s == 0 && *kname == "secp256r1" {
                    continue;
                }
                if n_t == 0 && vi > 0 {
                    continue;
                }
                for how in [Setter::Strict, Setter::Lenient] {
                    // every subset of the parameters bound
                    for mask in 0..(1u32 << (n_t + n_s)) {
                        cases.fetch_add(1, Ordering::Relaxed);
                        let mut item = base.clone();
                        let mut env: HashMap<String, Term> = HashMap::new();
                        let mut kenv: HashMap<String, PublicKey> = HashMap::new();
                        let mut setter_errors = vec![];
                        for (pi, p) in t.term_params.iter().enumerate() {
                            if mask & (1 << pi) != 0 {
                                let val = if pi == 0 { v.clone() } else { b::string("second") };
                                match guard(|| set_term(&mut item, p, &val, how)) {
                                    Ok(Ok(())) => {
                                        env.insert(p.to_string(), val);
                                    }
                                    Ok(Err(e)) => setter_errors.push(e),
                                    Err(pn) => {
                                        ctx.violation_lazy(format!("C20/panic/{}", panic_site(&pn)), || json!({"template": t.src, "panic": pn}));
                                        return;
                                    }
                                }
                            }
                        }
                        for (si, p) in t.scope_params.iter().enumerate() {
                            if mask & (1 << (n_t + si)) != 0 {
                                let kv = if si == 0 { *k } else { ext_key(Alg::Ed, 1).public() };
                                match guard(|| set_scope(&mut item, p, kv, how)) {
                                    Ok(Ok(())) => {
                                        kenv.insert(p.to_string(), kv);
                                    }
                                    Ok(Err(e)) => setter_errors.push(e),
                                    Err(pn) => {
                                        ctx.violation_lazy(format!("C20/panic/{}", panic_site(&pn)), || json!({"template": t.src, "panic": pn}));
                                        return;
                                    }
                                }
                            }
                        }
                        let case = || json!({"template": t.src, "item_obtained_by": path, "value": vname, "key": kname, "setter": format!("{how:?}"), "bound_mask": mask, "setter_errors": setter_errors});
                        let vclass = value_class(vname);
                        if !setter_errors.is_empty() {
                            // a strict / lenient setter refusing a parameter that exists in the item
                            ctx.violation_lazy(format!("C20/setter-refuses-existing-parameter/{}/{vclass}", t.name), case);
                            continue;
                        }
                        let all_bound = mask == (1u32 << (n_t + n_s)) - 1;
                        let added = add_to_builders(&item);
                        if let Err(e) = &added {
                            if e.starts_with("PANIC") {
                                ctx.violation_lazy(format!("C20/panic/{}", panic_site(e)), || json!({"case": case(), "panic": e}));
                                continue;
                            }
                        }
                        if !all_bound {
                            partial.fetch_add(1, Ordering::Relaxed);
                            // items that still have unbound parameters are refused when added
                            if added.is_ok() {
                                ctx.violation_lazy(format!("C20/unbound-parameter-accepted-on-add/{}", t.name), case);
                            }
                            continue;
                        }
                        fully.fetch_add(1, Ordering::Relaxed);
                        let invalid_key_binding = t.key_params.iter().any(|p| !matches!(env.get(*p), Some(Term::Integer(_)) | Some(Term::Str(_))));
                        let expected = expected_of(&base, &env, &kenv);
                        if expected.is_none() {
                            // a map-key parameter bound to a value that cannot be a key: the item
                            // must be refused when added (converting it is not defined)
                            if added.is_ok() {
                                ctx.violation_lazy(format!("C20/invalid-map-key-binding-accepted-on-add/{}/{vclass}", t.name), case);
                            }
                            continue;
                        }
                        if added.is_err() {
                            ctx.violation_lazy(format!("C20/fully-bound-item-refused-on-add/{}/{vclass}", t.name), || json!({"case": case(), "error": added.clone().err()}));
                            continue;
                        }
                        let real = realize(&item);
                        match (&expected, &real) {
                            (_, Err(e)) if e.starts_with("PANIC") => {
                                ctx.violation_lazy(format!("C20/panic/{}", panic_site(e)), || json!({"case": case(), "panic": e, "note": if invalid_key_binding { "map key bound to a value that cannot be a key" } else { "" }}))
                            }
                            (None, _) => {
                                // binding a map-key parameter to a non-key value: any non-panicking answer is fine
                            }
                            (Some(_), Err(e)) => ctx.violation_lazy(format!("C20/fully-bound-item-does-not-convert/{}/{vclass}", t.name), || json!({"case": case(), "error": e})),
                            (Some(exp), Ok(r)) => {
                                if !r.same(exp) {
                                    ctx.violation_lazy(format!("C20/value-not-placed-exactly-at-the-parameter/{}/{vclass}", t.name), || json!({"case": case(), "expected": format!("{exp:?}"), "real": format!("{r:?}")}));
                                } else {
                                    // binding a parameter again replaces the value (templates are bound in a loop)
                                    if n_t > 0 && !invalid_key_binding {
                                        let again = b::int(424242);
                                        let mut item2 = item.clone();
                                        let mut env2 = env.clone();
                                        env2.insert(t.term_params[0].to_string(), again.clone());
                                        if let (Ok(Ok(())), Some(exp2)) = (guard(|| set_term(&mut item2, t.term_params[0], &again, how)), expected_of(&base, &env2, &kenv)) {
                                            match realize(&item2) {
                                                Ok(r2) if r2.same(&exp2) => {}
                                                other => {
                                                    // sets of mixed types after the re-binding are not comparable
                                                    let in_set = t.name.contains("set-members") || t.name.contains("all-expression-literal");
                                                    if !in_set {
                                                        ctx.violation_lazy(format!("C20/binding-a-parameter-again-does-not-replace-the-value/{}", t.name), || json!({"case": case(), "second_value": "424242", "expected": format!("{exp2:?}"), "real": format!("{other:?}")}));
                                                    }
                                                }
                                            }
                                        }
                                    }
                                    // printing the bound item and parsing it gives the same item (ties to C14);
                                    // a value that makes an ill-typed set (heterogeneous members, or a
                                    // collection inside a set) has no source form: not compared
                                    let in_set = t.name.contains("set-members") || t.name.contains("all-expression-literal");
                                    if in_set && vclass != "string" {
                                        continue;
                                    }
                                    match item.print() {
                                        Err(p) => ctx.violation_lazy(format!("C20/panic/{}", panic_site(&p)), || json!({"case": case(), "panic": p})),
                                        Ok(s) => match exp.parse_like(&s) {
                                            Ok(back) if back.same(exp) => {}
                                            other => {
                                                // one-element sets of bool / bytes and eager operators are C14's known findings
                                                let c14_known = s.contains("{true}") || s.contains("{false}") || s.contains("{hex:");
                                                if !c14_known {
                                                    ctx.violation_lazy(format!("C20/bound-item-prints-as-different-code/{}/{vclass}", t.name), || json!({"case": case(), "printed": s, "parsed_back": format!("{other:?}")}));
                                                }
                                            }
                                        },
                                    }
                                }
                            }
                        }
                    }
                }
            }
        }
        // unknown names: strict setters report them, lenient ones accept
        let mut item = base.clone();
        match set_term(&mut item, "nosuchparam", &b::int(1), Setter::Strict) {
            Err(e) if e.contains("unused_parameters: [\"nosuchparam\"]") => {}
            other => ctx.violation_lazy(format!("C20/unknown-name-not-reported-by-strict-setter/{}", t.kind), || json!({"template": t.src, "result": format!("{other:?}")})),
        }
        if t.kind != "fact" {
            match set_scope(&mut item, "nosuchscope", k1().public(), Setter::Strict) {
                Err(e) if e.contains("unused_parameters: [\"nosuchscope\"]") => {}
                other => ctx.violation_lazy(format!("C20/unknown-scope-name-not-reported-by-strict-setter/{}", t.kind), || json!({"template": t.src, "result": format!("{other:?}")})),
            }
        }
        if set_term(&mut item, "nosuchparam", &b::int(1), Setter::Lenient).is_err() {
            ctx.violation_lazy(format!("C20/lenient-setter-refuses-unknown-name/{}", t.kind), || json!({"template": t.src}));
        }
        samples_out.push(|| json!({"template": t.src, "term_params": t.term_params, "scope_params": t.scope_params}));
    });

    // ---- code_with_params on block / biscuit / authorizer builders, with extra unknown names
    let cwp = AtomicUsize::new(0);
    temps.par_iter().for_each(|t| {
        for (vname, v) in vals.iter().take(tier.pick(5000, usize::MAX)) {
            for bound in [true, false] {
                cwp.fetch_add(1, Ordering::Relaxed);
                let mut params: HashMap<String, Term> = HashMap::new();
                let mut scopes: HashMap<String, PublicKey> = HashMap::new();
                params.insert("unknown_extra".into(), b::int(0));
                scopes.insert("unknown_scope".into(), k2().public());
                if bound {
                    for (i, p) in t.term_params.iter().enumerate() {
                        params.insert(p.to_string(), if i == 0 { v.clone() } else { b::string("second") });
                    }
                    for p in t.scope_params {
                        scopes.insert(p.to_string(), k1().public());
                    }
                }
                let src = format!("{};", t.src);
                let has_any = !t.term_params.is_empty() || !t.scope_params.is_empty();
                let expect_ok = bound || !has_any;
                let invalid_key = bound && t.key_params.iter().any(|_| !matches!(v, Term::Integer(_) | Term::Str(_)));
                let results: Vec<(&str, Result<Result<(), String>, String>)> = vec![
                    ("BlockBuilder", if t.kind == "policy" { Ok(Ok(())) } else { guard(|| b::BlockBuilder::new().code_with_params(&src, params.clone(), scopes.clone()).map(|bb| { let _ = bb.to_string(); }).map_err(|e| format!("{e:?}"))) }),
                    ("BiscuitBuilder", if t.kind == "policy" { Ok(Ok(())) } else { guard(|| {
                        let bb = b::BiscuitBuilder::new().code_with_params(&src, params.clone(), scopes.clone()).map_err(|e| format!("{e:?}"))?;
                        let _ = bb.to_string();
                        bb.build_with_key_pair(&root(Alg::Ed), SymbolTable::new(), &key(Alg::Ed, ROLE_NEXT, 0)).map(|_| ()).map_err(|e| format!("build: {e:?}"))
                    }) }),
                    ("AuthorizerBuilder", guard(|| {
                        let ab = AuthorizerBuilder::new().code_with_params(&src, params.clone(), scopes.clone()).map_err(|e| format!("{e:?}"))?;
                        let _ = ab.dump_code();
                        ab.build_unauthenticated().map(|a| { let _ = a.print_world(); }).map_err(|e| format!("build: {e:?}"))
                    })),
                ];
                for (bname, r) in results {
                    if t.kind == "policy" && bname != "AuthorizerBuilder" {
                        continue;
                    }
                    match r {
                        Err(p) => ctx.violation_lazy(format!("C20/panic/{}", panic_site(&p)), || json!({"template": t.src, "value": vname, "builder": bname, "bound": bound, "panic": p, "invalid_key_binding": invalid_key})),
                        Ok(res) => {
                            if invalid_key {
                                continue;
                            }
                            if res.is_ok() != expect_ok {
                                let what = if res.is_ok() { "unbound-parameters-accepted" } else { "bound-source-refused" };
                                ctx.violation_lazy(format!("C20/code_with_params/{what}/{bname}/{}", t.name), || json!({"template": t.src, "value": vname, "bound": bound, "result": format!("{res:?}")}));
                            }
                        }
                    }
                }
            }
        }
    });

    let n = cases.load(Ordering::Relaxed);
    let cov = json!({
        "evaluations": n + cwp.load(Ordering::Relaxed),
        "distinct_nontrivial": fully.load(Ordering::Relaxed),
        "templates (one per parameter position)": temps.len(),
        "values": vals.len(),
        "fully_bound_cases_compared_with_direct_construction": fully.load(Ordering::Relaxed),
        "partially_bound_cases": partial.load(Ordering::Relaxed),
        "code_with_params_cases": cwp.load(Ordering::Relaxed),
        "exhaustive": true,
        "samples": samples_out.take(),
        "rule": "templates with a parameter in every position (fact term; set / array member; map value; map key; nested two levels; rule head / body, nested; expression operand; collection and map literals inside expressions; closure and nested closure bodies; lazy operand; scopes of rules, checks, policies; several parameters incl. one used twice and one shared by alternatives) x every value (all term kinds; strings made of Datalog syntax and all strings up to the length bound over the hostile alphabet; public keys of both algorithms) x every subset of bound parameters x strict / lenient setters: fully bound => the item after conversion equals the item built by direct substitution, adds to the builders, and prints to text that parses back to it; partially bound => refused on add; unknown names reported by strict setters; code_with_params on Block / Biscuit / Authorizer builders with extra unknown names (every value up to length 3 of the sweep; thorough: up to length 4); no panic anywhere. distinct_nontrivial = fully bound cases",
    });
    ctx.finish("exploration", cov, vec!["the direct substitution is done by the harness on the parsed AST".into()]);
}

//! C02 — every token the API builds verifies and round-trips byte-exactly.
use crate::common::*;
use crate::ehist;
use crate::tok::*;
use biscuit_auth::{Biscuit, UnverifiedBiscuit};
use serde_json::json;
use std::sync::atomic::{AtomicUsize, Ordering};

pub fn initial_states(contents: &[&'static str], kids: &[Option<u32>]) -> Vec<Op> {
    let mut v = vec![];
    for r in ALGS {
        for n in ALGS {
            for c in contents {
                for k in kids {
                    v.push(Op::Build {
                        root: r,
                        next: n,
                        content: c,
                        kid: *k,
                    });
                }
            }
        }
    }
    v
}

pub fn std_next_ops(
    contents: &'static [&'static str],
    tp_contents: &'static [&'static str],
) -> impl Fn(&[Op], &Tok) -> Vec<Op> + Sync {
    move |_h, t| {
        let mut v = vec![];
        if !t.is_sealed() {
            for n in ALGS {
                for c in contents {
                    v.push(Op::Append {
                        next: n,
                        content: c,
                    });
                }
            }
            for e in ALGS {
                for n in ALGS {
                    for c in tp_contents {
                        v.push(Op::AppendTp {
                            ext: e,
                            next: n,
                            content: c,
                        });
                    }
                }
            }
            v.push(Op::Seal);
        }
        v.push(Op::Convert);
        v.push(Op::Reload);
        v
    }
}

/// datalog version the builders give each content (R-ver restricted to the alphabet)
fn content_min_version(c: &str) -> u32 {
    match c {
        "b0" | "b1" | "b2" | "b7" | "t1" => 3,
        "b3" | "b4" | "b6" | "b8" | "t0" | "t2" => 4,
        "b5" => 6,
        _ => panic!("content"),
    }
}

/// signature versions the specification prescribes for a history
pub fn expected_sig_versions(h: &[Op]) -> Vec<u32> {
    let mut out = vec![];
    let mut signer = Alg::Ed;
    let mut any_v1 = false;
    for op in h {
        match op {
            Op::Build {
                root,
                next,
                content,
                ..
            } => {
                let v1 = *root != Alg::Ed || *next != Alg::Ed || content_min_version(content) >= 6;
                any_v1 |= v1;
                out.push(if v1 { 1 } else { 0 });
                signer = *next;
            }
            Op::Append { next, content } => {
                let v1 = any_v1
                    || signer != Alg::Ed
                    || *next != Alg::Ed
                    || content_min_version(content) >= 6;
                any_v1 |= v1;
                out.push(if v1 { 1 } else { 0 });
                signer = *next;
            }
            Op::AppendTp { next, .. } => {
                any_v1 = true;
                out.push(1);
                signer = *next;
            }
            _ => {}
        }
    }
    out
}

fn view(b: &Biscuit) -> serde_json::Value {
    let n = b.block_count();
    json!({
        "block_count": n,
        "context": b.context(),
        "external": b.external_public_keys().iter().map(|k| k.map(|k| pk_str(&k))).collect::<Vec<_>>(),
        "root_key_id": b.root_key_id(),
        "revocation": b.revocation_identifiers().iter().map(hex::encode).collect::<Vec<_>>(),
        "sources": (0..n).map(|i| b.print_block_source(i).map_err(|e| format!("{e:?}"))).collect::<Vec<_>>(),
        "symbols": (0..n).map(|i| b.block_symbols(i).map_err(|e| format!("{e:?}"))).collect::<Vec<_>>(),
        "public_keys": (0..n).map(|i| b.block_public_keys(i).map(|k| format!("{k:?}")).map_err(|e| format!("{e:?}"))).collect::<Vec<_>>(),
        "versions": (0..n).map(|i| b.block_version(i).map_err(|e| format!("{e:?}"))).collect::<Vec<_>>(),
    })
}

pub fn check_state(ctx: &Ctx, h: &[Op], t: &Tok) {
    let ra = hist_root(h);
    let rootk = root(ra).public();
    let hs = show_hist(h);
    let fail = |what: &str, detail: serde_json::Value| {
        // key: invariant + shape of the history (ops without keys)
        ctx.violation(
            format!("C02/{}/{}", what, hs),
            json!({"history": hs, "kind": t.kind(), "what": what, "detail": detail}),
        );
    };
    let bytes = match guard(|| t.to_vec()) {
        Ok(Ok(b)) => b,
        Ok(Err(e)) => return fail("to_vec-error", json!(e)),
        Err(p) => return fail("to_vec-panic", json!(p)),
    };
    // reference view: the in-memory token (verified form)
    let mem = match guard(|| t.verified(&rootk)) {
        Ok(Ok(b)) => b,
        Ok(Err(e)) => return fail("in-memory-token-does-not-verify", json!(e)),
        Err(p) => return fail("verify-panic", json!(p)),
    };
    let mem_view = match guard(|| view(&mem)) {
        Ok(v) => v,
        Err(p) => return fail("accessor-panic", json!(p)),
    };
    let b64 = base64::encode_config(&bytes, base64::URL_SAFE);
    let paths: Vec<(&str, Box<dyn Fn() -> Result<Biscuit, String>>)> = vec![
        (
            "from",
            Box::new(|| Biscuit::from(&bytes, rootk).map_err(|e| format!("{e:?}"))),
        ),
        (
            "from_base64",
            Box::new(|| Biscuit::from_base64(&b64, rootk).map_err(|e| format!("{e:?}"))),
        ),
        (
            "unverified_from_verify",
            Box::new(|| {
                UnverifiedBiscuit::from(&bytes)
                    .map_err(|e| format!("{e:?}"))?
                    .verify(rootk)
                    .map_err(|e| format!("{e:?}"))
            }),
        ),
        (
            "unverified_from_base64_verify",
            Box::new(|| {
                UnverifiedBiscuit::from_base64(&b64)
                    .map_err(|e| format!("{e:?}"))?
                    .verify(rootk)
                    .map_err(|e| format!("{e:?}"))
            }),
        ),
    ];
    for (name, f) in paths.iter() {
        match guard(|| f()) {
            Err(p) => fail(&format!("reload-panic:{name}"), json!(p)),
            Ok(Err(e)) => fail(&format!("reload-refused:{name}"), json!(e)),
            Ok(Ok(r)) => {
                match guard(|| view(&r)) {
                    Err(p) => fail(&format!("accessor-panic-after:{name}"), json!(p)),
                    Ok(v) => {
                        if v != mem_view {
                            fail(
                                &format!("view-differs:{name}"),
                                json!({"in_memory": mem_view, "reloaded": v}),
                            );
                        }
                    }
                }
                match r.to_vec() {
                    Ok(b2) if b2 == bytes => {}
                    Ok(b2) => fail(
                        &format!("bytes-differ:{name}"),
                        json!({"orig": hex::encode(&bytes), "again": hex::encode(b2)}),
                    ),
                    Err(e) => fail(&format!("reserialize-error:{name}"), json!(format!("{e:?}"))),
                }
                if r.serialized_size().ok() != Some(bytes.len()) {
                    fail(&format!("serialized_size:{name}"), json!(null));
                }
            }
        }
    }
    match mem.to_base64() {
        Ok(s) => {
            if base64::decode_config(&s, base64::URL_SAFE).ok().as_deref() != Some(&bytes[..]) {
                fail("to_base64-differs", json!(null));
            }
        }
        Err(e) => fail("to_base64-error", json!(format!("{e:?}"))),
    }
    // independent layout oracle
    let rk = rootk.to_proto();
    match rsig_verify(&bytes, rk.algorithm, &rk.key) {
        Err(e) => fail("rsig-rejects", json!(e)),
        Ok(versions) => {
            let exp = expected_sig_versions(h);
            if versions != exp {
                fail(
                    "signature-version",
                    json!({"declared": versions, "prescribed": exp}),
                );
            }
        }
    }
}

pub fn run(tier: Tier) {
    let ctx = Ctx::new("C02", tier);
    let depth = tier.pick(3, 4);
    let contents: &'static [&'static str] = &["b0", "b3", "b5"];
    let tp: &'static [&'static str] = &["t0"];
    let samples = Samples::new(6);
    let checked = AtomicUsize::new(0);
    let refused = std::sync::Mutex::new(std::collections::BTreeMap::<String, usize>::new());
    let next = std_next_ops(contents, tp);
    let run_once = |record: bool| {
        ehist::bfs(
            initial_states(contents, &[None, Some(7)]),
            depth,
            tier.pick(200_000, 30_000_000),
            &next,
            &|h, t| {
                if record {
                    check_state(&ctx, h, t);
                    checked.fetch_add(1, Ordering::Relaxed);
                    if h.len() == depth + 1 {
                        samples.push(|| json!(show_hist(h)));
                    }
                }
            },
            &|_, _, _, _| {},
            &|h, _t, op, e| {
                if record {
                    let k = format!("{} refused: {}", op.show(), e.chars().take(60).collect::<String>());
                    let _ = h;
                    *refused.lock().unwrap().entry(k).or_insert(0) += 1;
                }
            },
        )
    };
    let st = run_once(true);
    let mut determinism = "not re-run (quick)".to_string();
    if tier == Tier::Thorough {
        let st2 = run_once(false);
        if st2.states != st.states || st2.transitions != st.transitions || st2.digest != st.digest {
            eprintln!("MACHINERY: nondeterministic exploration");
            std::process::exit(2);
        }
        determinism = "second run: identical states/transitions/digest".into();
    }
    for (k, v) in refused.into_inner().unwrap() {
        for _ in 0..v.min(1) {
            ctx.observe(format!("transition refused by API: {k} (x{v})"));
        }
    }
    let cov = json!({
        "states": st.states,
        "transitions": st.transitions,
        "failed_transitions": st.failed_transitions,
        "traces_validated_against_impl": st.states,
        "max_depth_after_build": st.max_depth,
        "states_per_depth": st.per_depth,
        "transitions_per_op": st.per_op,
        "invariant_evaluations": checked.load(Ordering::Relaxed),
        "capped": st.capped,
        "exhaustive": !st.capped,
        "digest": st.digest,
        "determinism": determinism,
        "samples": samples.take(),
        "rule": "explicit-state BFS over real API calls: build(root alg x next alg x {b0,b3,b5} x {no kid,7}) then {append x6, append_third_party x4, seal, convert, reload}; state = in-memory object (Debug of all fields + bytes); every state: 4 reload paths, view equality, byte identity, independent signature layout oracle",
    });
    ctx.finish(
        "model_checking",
        cov,
        vec![
            "fresh block keys come from a deterministic pool (the RNG-drawing API variants are not exercised)".into(),
            "R-sig trusts ed25519-dalek / p256 primitive verification; layouts are written from the specification".into(),
        ],
    );
}

//! Binds the reference models to the specification by replaying the
//! cross-implementation conformance suite (samples/samples.json + .bc vectors)
//! through the reference models alone.
use crate::rdl::{self, Decision, FailedCheck, Fail};
use crate::rexpr::{self, V};
use crate::tok;
use biscuit_auth::builder as b;
use serde_json::Value;
use std::collections::BTreeSet;
use std::convert::TryFrom;

pub fn samples_dir() -> String {
    format!("{}/biscuit-auth/samples", crate::common::repo_root())
}

pub struct BindReport {
    pub rsig_accepted: usize,
    pub rsig_rejected: usize,
    pub rdl_validations: usize,
    pub rdl_exec_error_validations: usize,
    pub rdl_skipped: Vec<String>,
}

pub fn parse_authorizer(src: &str) -> Result<rdl::RAuthorizer, String> {
    let res = biscuit_parser::parser::parse_source(src).map_err(|e| format!("{e:?}"))?;
    let mut a = rdl::RAuthorizer::default();
    for (_, f) in res.facts {
        let f: b::Fact = f.into();
        a.facts.push(rdl::pred(&f.predicate).ok_or("fact")?);
    }
    for (_, r) in res.rules {
        let r: b::Rule = r.into();
        a.rules.push(rdl::rule(&r).ok_or("rule")?);
    }
    for (_, c) in res.checks {
        let c: b::Check = c.into();
        a.checks.push(rdl::check(&c).ok_or("check")?);
    }
    for (_, p) in res.policies {
        let p: b::Policy = p.into();
        a.policies.push(rdl::policy(&p).ok_or("policy")?);
    }
    Ok(a)
}

pub fn parse_block(src: &str, ext: Option<String>) -> Result<rdl::RBlock, String> {
    let bb = b::BlockBuilder::new().code(src).map_err(|e| format!("{e:?}"))?;
    rdl::block(&bb, ext).ok_or_else(|| "block conversion".to_string())
}

fn sample_extern(name: &str, l: &V, r: Option<&V>) -> Result<V, ()> {
    if name != "test" {
        return Err(());
    }
    match (l, r) {
        (t, None) => Ok(t.clone()),
        (V::Str(a), Some(V::Str(c))) => Ok(V::Str(
            if a == c { "equal strings" } else { "different strings" }.to_string(),
        )),
        _ => Err(()),
    }
}

fn expected_checks(v: &Value) -> Vec<FailedCheck> {
    v.as_array()
        .map(|a| {
            a.iter()
                .map(|c| {
                    if let Some(bc) = c.get("Block") {
                        FailedCheck::Block(
                            bc["block_id"].as_u64().unwrap() as usize,
                            bc["check_id"].as_u64().unwrap() as usize,
                        )
                    } else {
                        FailedCheck::Authorizer(c["Authorizer"]["check_id"].as_u64().unwrap() as usize)
                    }
                })
                .collect()
        })
        .unwrap_or_default()
}

/// Ok(Some(decision)) | Ok(None) for execution errors | Err for results outside R-dl (format errors)
fn expected_decision(res: &Value) -> Result<Option<Decision>, String> {
    if let Some(i) = res.get("Ok") {
        return Ok(Some(Decision::Ok(i.as_u64().unwrap() as usize)));
    }
    let e = &res["Err"];
    if e.get("Execution").is_some() {
        return Ok(None);
    }
    if let Some(l) = e.get("FailedLogic") {
        if let Some(u) = l.get("Unauthorized") {
            let checks = expected_checks(&u["checks"]);
            if let Some(i) = u["policy"].get("Allow") {
                return Ok(Some(Decision::UnauthorizedAllow(i.as_u64().unwrap() as usize, checks)));
            }
            if let Some(i) = u["policy"].get("Deny") {
                return Ok(Some(Decision::UnauthorizedDeny(i.as_u64().unwrap() as usize, checks)));
            }
        }
        if let Some(n) = l.get("NoMatchingPolicy") {
            return Ok(Some(Decision::NoMatchingPolicy(expected_checks(&n["checks"]))));
        }
        if l.get("InvalidBlockRule").is_some() {
            return Err("InvalidBlockRule".into());
        }
    }
    Err(format!("outside R-dl: {}", res))
}

pub fn bind() -> Result<BindReport, String> {
    let data = std::fs::read_to_string(format!("{}/samples.json", samples_dir())).map_err(|e| e.to_string())?;
    let j: Value = serde_json::from_str(&data).map_err(|e| e.to_string())?;
    let root_pub = hex::decode(j["root_public_key"].as_str().unwrap()).unwrap();
    let mut rep = BindReport {
        rsig_accepted: 0,
        rsig_rejected: 0,
        rdl_validations: 0,
        rdl_exec_error_validations: 0,
        rdl_skipped: vec![],
    };
    for tc in j["testcases"].as_array().unwrap() {
        let name = tc["filename"].as_str().unwrap();
        let bytes = std::fs::read(format!("{}/{name}", samples_dir())).map_err(|e| format!("{name}: {e}"))?;
        let vals = tc["validations"].as_object().unwrap();
        let all_format_err = vals.values().all(|v| v["result"]["Err"].get("Format").is_some());
        // --- R-sig
        let r = tok::rsig_verify(&bytes, 0, &root_pub);
        if all_format_err {
            // signature / format failures must be refused by the layout oracle too, except
            // failures that are not about signatures (none in the current suite)
            if r.is_ok() {
                return Err(format!("R-sig accepts {name}, which the suite marks as a format/signature error"));
            }
            rep.rsig_rejected += 1;
            continue;
        } else {
            if let Err(e) = r {
                return Err(format!("R-sig rejects valid vector {name}: {e}"));
            }
            rep.rsig_accepted += 1;
        }
        // --- R-dl
        let mut blocks = vec![];
        let mut parse_err = None;
        for bl in tc["token"].as_array().unwrap() {
            let ext = bl["external_key"].as_str().map(|s| s.to_string());
            match parse_block(bl["code"].as_str().unwrap(), ext) {
                Ok(bk) => blocks.push(bk),
                Err(e) => parse_err = Some(e),
            }
        }
        if let Some(e) = parse_err {
            rep.rdl_skipped.push(format!("{name}: block source not parseable by the front end: {e}"));
            continue;
        }
        for (vname, v) in vals {
            let auth = match parse_authorizer(v["authorizer_code"].as_str().unwrap_or("")) {
                Ok(a) => a,
                Err(e) => {
                    rep.rdl_skipped.push(format!("{name}/{vname}: authorizer code: {e}"));
                    continue;
                }
            };
            let exp = expected_decision(&v["result"]);
            let out = rdl::authorize(&blocks, &auth, Some(&sample_extern));
            match (&exp, &out) {
                (Ok(None), Err(Fail::Expr(_))) => {
                    rep.rdl_exec_error_validations += 1;
                    continue;
                }
                (Err(e), Err(Fail::InvalidBlockRule)) if e == "InvalidBlockRule" => {
                    rep.rdl_validations += 1;
                    continue;
                }
                (Ok(Some(d)), Ok(o)) => {
                    if *d != o.decision {
                        return Err(format!("R-dl disagrees with sample {name}/{vname}: expected {d:?}, reference {:?}", o.decision));
                    }
                    // world facts
                    let mut expected: BTreeSet<(Vec<Option<u64>>, rdl::Ground)> = BTreeSet::new();
                    for grp in v["world"]["facts"].as_array().unwrap() {
                        let mut origin: Vec<Option<u64>> = grp["origin"].as_array().unwrap().iter().map(|o| o.as_u64()).collect();
                        origin.sort();
                        for f in grp["facts"].as_array().unwrap() {
                            let bf = b::Fact::try_from(f.as_str().unwrap()).map_err(|e| format!("{name}: fact {f}: {e:?}"))?;
                            let p = rdl::pred(&bf.predicate).ok_or("pred")?;
                            let g = (p.name.clone(), p.terms.iter().map(|t| match t { rdl::Tm::Val(v) => v.clone(), _ => V::Null }).collect());
                            expected.insert((origin.clone(), g));
                        }
                    }
                    let got: BTreeSet<(Vec<Option<u64>>, rdl::Ground)> = o
                        .world
                        .iter()
                        .map(|(or, g)| {
                            let mut ov: Vec<Option<u64>> = or.iter().map(|i| if *i == rdl::A { None } else { Some(*i as u64) }).collect();
                            ov.sort();
                            (ov, g.clone())
                        })
                        .collect();
                    if expected != got {
                        let missing: Vec<_> = expected.difference(&got).collect();
                        let extra: Vec<_> = got.difference(&expected).collect();
                        return Err(format!("R-dl world differs from sample {name}/{vname}: missing {missing:?} extra {extra:?}"));
                    }
                    rep.rdl_validations += 1;
                }
                (e, o) => {
                    return Err(format!(
                        "R-dl disagrees with sample {name}/{vname}: expected {:?}, reference {:?}",
                        e,
                        o.as_ref().map(|o| o.decision.clone()).map_err(|e| e.clone())
                    ));
                }
            }
        }
    }
    Ok(rep)
}

/// binds or exits 2 (a disagreement with the samples is a machinery error, not a verdict)
pub fn bind_or_die() -> BindReport {
    match bind() {
        Ok(r) => r,
        Err(e) => {
            eprintln!("MACHINERY: reference model not bound to the conformance samples: {e}");
            std::process::exit(2);
        }
    }
}

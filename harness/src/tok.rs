//! Token-level helpers: deterministic key pool, block content alphabet,
//! operation histories, independent signature oracle (R-sig).
use biscuit_auth::builder::{Algorithm, BiscuitBuilder, BlockBuilder};
use biscuit_auth::datalog::SymbolTable;
use biscuit_auth::format::schema;
use biscuit_auth::{Biscuit, KeyPair, PrivateKey, PublicKey, UnverifiedBiscuit};
use prost::Message;

#[derive(Clone, Copy, PartialEq, Eq, Debug, Hash, PartialOrd, Ord)]
pub enum Alg {
    Ed,
    P256,
}
pub const ALGS: [Alg; 2] = [Alg::Ed, Alg::P256];

impl Alg {
    pub fn to_builder(self) -> Algorithm {
        match self {
            Alg::Ed => Algorithm::Ed25519,
            Alg::P256 => Algorithm::Secp256r1,
        }
    }
    pub fn name(self) -> &'static str {
        match self {
            Alg::Ed => "ed",
            Alg::P256 => "p256",
        }
    }
    pub fn name_long(self) -> &'static str {
        match self {
            Alg::Ed => "ed25519",
            Alg::P256 => "secp256r1",
        }
    }
    pub fn id(self) -> i32 {
        match self {
            Alg::Ed => 0,
            Alg::P256 => 1,
        }
    }
}

/// deterministic key: (algorithm, role, index). Distinct (role,index) give distinct keys.
pub fn key(alg: Alg, role: u8, idx: u8) -> KeyPair {
    let mut seed = [0u8; 32];
    for (i, b) in seed.iter_mut().enumerate() {
        *b = (i as u8)
            .wrapping_mul(7)
            .wrapping_add(role.wrapping_mul(31))
            .wrapping_add(idx.wrapping_mul(101))
            .wrapping_add(1);
    }
    seed[0] = 0x11; // keep p256 scalars < n and non-zero
    seed[31] = role ^ 0x5a;
    seed[30] = idx;
    let pk = PrivateKey::from_bytes(&seed, alg.to_builder()).expect("pool key");
    KeyPair::from(&pk)
}
pub const ROLE_ROOT: u8 = 1;
pub const ROLE_NEXT: u8 = 2;
pub const ROLE_EXT: u8 = 3;

pub fn root(alg: Alg) -> KeyPair {
    key(alg, ROLE_ROOT, 0)
}
pub fn other_root(alg: Alg, i: u8) -> KeyPair {
    key(alg, ROLE_ROOT, 1 + i)
}
/// fresh block key: a deterministic function of the token it extends and the
/// operation, so that (like with a real RNG) two different tokens never share a
/// next key, while the same operation on the same token gives the same result
pub fn next_key(alg: Alg, tok: Option<&Tok>, op: &Op) -> KeyPair {
    use sha2::{Digest, Sha256};
    let mut h = Sha256::new();
    h.update(b"next-key");
    if let Some(t) = tok {
        h.update(t.to_vec().unwrap_or_default());
    }
    h.update(op.show().as_bytes());
    let mut seed: [u8; 32] = h.finalize().into();
    seed[0] = 0x11; // keep p256 scalars < n and non-zero
    let pk = PrivateKey::from_bytes(&seed, alg.to_builder()).expect("derived key");
    KeyPair::from(&pk)
}
pub fn ext_key(alg: Alg, i: u8) -> KeyPair {
    key(alg, ROLE_EXT, i)
}
/// K1 = ed25519 external key 0, K2 = secp256r1 external key 0
pub fn k1() -> KeyPair {
    ext_key(Alg::Ed, 0)
}
pub fn k2() -> KeyPair {
    ext_key(Alg::P256, 0)
}

pub fn pk_str(k: &PublicKey) -> String {
    format!("{}", k)
}

/// Block content alphabet (DESIGN §3). Returned as Datalog source.
pub fn content_src(name: &str) -> String {
    let k1 = pk_str(&k1().public());
    let k2 = pk_str(&k2().public());
    match name {
        "b0" => r#"right("file1","read");"#.to_string(),
        "b1" => r#"s("file1"); check if s("file1");"#.to_string(),
        "b2" => r#"s("other"); q($x) <- s($x);"#.to_string(),
        "b3" => format!("check if s($x) trusting {k1};"),
        "b4" => format!("check if s($x) trusting {k1}, {k2};"),
        "b5" => "n(null); check if [1].contains(1);".to_string(),
        "b6" => "check all s($x), $x.length() > 0;".to_string(),
        "b7" => r#"right("file2","write"); check if right($f, "write");"#.to_string(),
        "t0" => format!(r#"tp("file1"); check if s("file1") trusting {k2};"#),
        "t1" => r#"tp("x"); read("x");"#.to_string(),
        "t2" => format!(r#"tp("other"); own($x) <- tp($x) trusting {k1};"#),
        _ => panic!("unknown content {name}"),
    }
}

pub fn block_of(name: &str) -> BlockBuilder {
    if name == "b8" {
        // a block-level scope naming public keys can only be given through the builder API
        return BlockBuilder::new()
            .code(r#"got($x) <- tp($x); check if tp($x) or s("file1");"#)
            .unwrap()
            .scope(biscuit_auth::builder::Scope::PublicKey(k2().public()))
            .scope(biscuit_auth::builder::Scope::Authority)
            .scope(biscuit_auth::builder::Scope::PublicKey(k1().public()));
    }
    BlockBuilder::new()
        .code(content_src(name))
        .unwrap_or_else(|e| panic!("content {name}: {e:?}"))
}

#[derive(Clone, Debug, PartialEq, Eq, Hash, PartialOrd, Ord)]
pub enum Op {
    Build {
        root: Alg,
        next: Alg,
        content: &'static str,
        kid: Option<u32>,
    },
    Append {
        next: Alg,
        content: &'static str,
    },
    AppendTp {
        ext: Alg,
        next: Alg,
        content: &'static str,
    },
    Seal,
    /// Biscuit -> bytes -> UnverifiedBiscuit ; UnverifiedBiscuit -> verify -> Biscuit
    Convert,
    /// through bytes, same kind
    Reload,
}

impl Op {
    pub fn show(&self) -> String {
        match self {
            Op::Build {
                root,
                next,
                content,
                kid,
            } => format!(
                "build(root={},next={},{}{})",
                root.name(),
                next.name(),
                content,
                kid.map(|k| format!(",kid={k}")).unwrap_or_default()
            ),
            Op::Append { next, content } => format!("append(next={},{})", next.name(), content),
            Op::AppendTp { ext, next, content } => format!(
                "append_tp(ext={},next={},{})",
                ext.name(),
                next.name(),
                content
            ),
            Op::Seal => "seal".into(),
            Op::Convert => "convert".into(),
            Op::Reload => "reload".into(),
        }
    }
}

pub fn show_hist(h: &[Op]) -> String {
    h.iter().map(|o| o.show()).collect::<Vec<_>>().join(" ; ")
}

#[derive(Clone, Debug)]
pub enum Tok {
    V(Biscuit),
    U(UnverifiedBiscuit),
}

impl Tok {
    pub fn kind(&self) -> &'static str {
        match self {
            Tok::V(_) => "Biscuit",
            Tok::U(_) => "UnverifiedBiscuit",
        }
    }
    pub fn to_vec(&self) -> Result<Vec<u8>, String> {
        match self {
            Tok::V(b) => b.to_vec().map_err(|e| format!("{e:?}")),
            Tok::U(b) => b.to_vec().map_err(|e| format!("{e:?}")),
        }
    }
    pub fn block_count(&self) -> usize {
        match self {
            Tok::V(b) => b.block_count(),
            Tok::U(b) => b.block_count(),
        }
    }
    pub fn revocation_identifiers(&self) -> Vec<Vec<u8>> {
        match self {
            Tok::V(b) => b.revocation_identifiers(),
            Tok::U(b) => b.revocation_identifiers(),
        }
    }
    pub fn external_public_keys(&self) -> Vec<Option<PublicKey>> {
        match self {
            Tok::V(b) => b.external_public_keys(),
            Tok::U(b) => b.external_public_keys(),
        }
    }
    pub fn print_block_source(&self, i: usize) -> Result<String, String> {
        match self {
            Tok::V(b) => b.print_block_source(i).map_err(|e| format!("{e:?}")),
            Tok::U(b) => b.print_block_source(i).map_err(|e| format!("{e:?}")),
        }
    }
    pub fn block_version(&self, i: usize) -> Result<u32, String> {
        match self {
            Tok::V(b) => b.block_version(i).map_err(|e| format!("{e:?}")),
            Tok::U(b) => b.block_version(i).map_err(|e| format!("{e:?}")),
        }
    }
    pub fn root_key_id(&self) -> Option<u32> {
        match self {
            Tok::V(b) => b.root_key_id(),
            Tok::U(b) => b.root_key_id(),
        }
    }
    pub fn is_sealed(&self) -> bool {
        match self.to_vec().ok().and_then(|v| schema::Biscuit::decode(&v[..]).ok()) {
            Some(b) => matches!(
                b.proof.content,
                Some(schema::proof::Content::FinalSignature(_))
            ),
            None => false,
        }
    }
    /// Debug rendering of everything in memory (tables, decoded blocks, container)
    pub fn debug(&self) -> String {
        match self {
            Tok::V(b) => format!("V{:?}", b),
            Tok::U(b) => format!("U{:?}", b),
        }
    }
    pub fn verified(&self, root: &PublicKey) -> Result<Biscuit, String> {
        match self {
            Tok::V(b) => Ok(b.clone()),
            Tok::U(b) => b.clone().verify(*root).map_err(|e| format!("{e:?}")),
        }
    }
}

/// which root algorithm a history was issued under
pub fn hist_root(h: &[Op]) -> Alg {
    match &h[0] {
        Op::Build { root, .. } => *root,
        _ => panic!("history must start with build"),
    }
}

/// apply one op (fresh keys are derived from the token and the op)
pub fn apply(tok: Option<&Tok>, op: &Op, _depth: usize, root_alg: Alg) -> Result<Tok, String> {
    let e = |e: biscuit_auth::error::Token| format!("{e:?}");
    match (tok, op) {
        (
            None,
            Op::Build {
                root: r,
                next,
                content,
                kid,
            },
        ) => {
            let mut b = BiscuitBuilder::new().code(content_src(content)).map_err(e)?;
            if let Some(k) = kid {
                b = b.root_key_id(*k);
            }
            let t = b
                .build_with_key_pair(&root(*r), SymbolTable::new(), &next_key(*next, tok, op))
                .map_err(e)?;
            Ok(Tok::V(t))
        }
        (Some(Tok::V(t)), Op::Append { next, content }) => t
            .append_with_keypair(&next_key(*next, tok, op), block_of(content))
            .map(Tok::V)
            .map_err(e),
        (Some(Tok::U(t)), Op::Append { next, content }) => t
            .append_with_keypair(&next_key(*next, tok, op), block_of(content))
            .map(Tok::U)
            .map_err(e),
        (Some(Tok::V(t)), Op::AppendTp { ext, next, content }) => {
            let req = t.third_party_request().map_err(e)?;
            let extk = ext_key(*ext, 0);
            let resp = req
                .create_block(&extk.private(), block_of(content))
                .map_err(e)?;
            t.append_third_party_with_keypair(extk.public(), resp, next_key(*next, tok, op))
                .map(Tok::V)
                .map_err(e)
        }
        (Some(Tok::U(t)), Op::AppendTp { ext, next, content }) => {
            let req = t.third_party_request().map_err(e)?;
            let extk = ext_key(*ext, 0);
            let resp = req
                .create_block(&extk.private(), block_of(content))
                .map_err(e)?;
            let bytes = resp.serialize().map_err(e)?;
            t.append_third_party_with_keypair(&bytes, next_key(*next, tok, op))
                .map(Tok::U)
                .map_err(e)
        }
        (Some(Tok::V(t)), Op::Seal) => t.seal().map(Tok::V).map_err(e),
        (Some(Tok::U(t)), Op::Seal) => t.seal().map(Tok::U).map_err(e),
        (Some(Tok::V(t)), Op::Convert) => {
            let v = t.to_vec().map_err(e)?;
            UnverifiedBiscuit::from(&v).map(Tok::U).map_err(e)
        }
        (Some(Tok::U(t)), Op::Convert) => t
            .clone()
            .verify(root(root_alg).public())
            .map(Tok::V)
            .map_err(|e| format!("{e:?}")),
        (Some(Tok::V(t)), Op::Reload) => {
            let v = t.to_vec().map_err(e)?;
            Biscuit::from(&v, root(root_alg).public())
                .map(Tok::V)
                .map_err(e)
        }
        (Some(Tok::U(t)), Op::Reload) => {
            let v = t.to_vec().map_err(e)?;
            UnverifiedBiscuit::from(&v).map(Tok::U).map_err(e)
        }
        _ => Err("op not applicable".into()),
    }
}

pub fn run_hist(h: &[Op]) -> Result<Tok, String> {
    let r = hist_root(h);
    let mut t: Option<Tok> = None;
    for (i, op) in h.iter().enumerate() {
        t = Some(apply(t.as_ref(), op, i, r)?);
    }
    Ok(t.unwrap())
}

// ---------------------------------------------------------------------------
// R-sig: independent implementation of the signed payload layouts of the
// Biscuit specification, verified with ed25519-dalek / p256 called directly.
// ---------------------------------------------------------------------------

fn raw_verify(alg: i32, key: &[u8], msg: &[u8], sig: &[u8]) -> Result<(), String> {
    match alg {
        0 => {
            let kb: [u8; 32] = key.try_into().map_err(|_| "ed key length")?;
            let vk = ed25519_dalek::VerifyingKey::from_bytes(&kb).map_err(|e| e.to_string())?;
            let sb: [u8; 64] = sig.try_into().map_err(|_| "ed sig length")?;
            let s = ed25519_dalek::Signature::from_bytes(&sb);
            vk.verify_strict(msg, &s).map_err(|e| e.to_string())
        }
        1 => {
            use p256::ecdsa::signature::Verifier;
            let vk = p256::ecdsa::VerifyingKey::from_sec1_bytes(key).map_err(|e| e.to_string())?;
            let s = p256::ecdsa::Signature::from_der(sig).map_err(|e| e.to_string())?;
            vk.verify(msg, &s).map_err(|e| e.to_string())
        }
        _ => Err(format!("unknown algorithm {alg}")),
    }
}

fn le32(x: i32) -> [u8; 4] {
    x.to_le_bytes()
}

pub fn payload_block(
    version: u32,
    authority: bool,
    payload: &[u8],
    next: &schema::PublicKey,
    ext_sig: Option<&[u8]>,
    prev_sig: &[u8],
) -> Result<Vec<u8>, String> {
    let mut m = vec![];
    match version {
        0 => {
            m.extend_from_slice(payload);
            if let Some(s) = ext_sig {
                m.extend_from_slice(s);
            }
            m.extend_from_slice(&le32(next.algorithm));
            m.extend_from_slice(&next.key);
        }
        1 => {
            m.extend_from_slice(b"\0BLOCK\0\0VERSION\0");
            m.extend_from_slice(&1u32.to_le_bytes());
            m.extend_from_slice(b"\0PAYLOAD\0");
            m.extend_from_slice(payload);
            m.extend_from_slice(b"\0ALGORITHM\0");
            m.extend_from_slice(&le32(next.algorithm));
            m.extend_from_slice(b"\0NEXTKEY\0");
            m.extend_from_slice(&next.key);
            if !authority {
                m.extend_from_slice(b"\0PREVSIG\0");
                m.extend_from_slice(prev_sig);
                if let Some(s) = ext_sig {
                    m.extend_from_slice(b"\0EXTERNALSIG\0");
                    m.extend_from_slice(s);
                }
            }
        }
        v => return Err(format!("unsupported signature version {v}")),
    }
    Ok(m)
}

pub fn payload_external(payload: &[u8], prev_sig: &[u8]) -> Vec<u8> {
    let mut m = b"\0EXTERNAL\0\0VERSION\0".to_vec();
    m.extend_from_slice(&1u32.to_le_bytes());
    m.extend_from_slice(b"\0PAYLOAD\0");
    m.extend_from_slice(payload);
    m.extend_from_slice(b"\0PREVSIG\0");
    m.extend_from_slice(prev_sig);
    m
}

/// deprecated layout of the external signature (signature version 0): payload, then the key that signs the block
pub fn payload_external_v0(payload: &[u8], previous_next_key: &schema::PublicKey) -> Vec<u8> {
    let mut m = payload.to_vec();
    m.extend_from_slice(&le32(previous_next_key.algorithm));
    m.extend_from_slice(&previous_next_key.key);
    m
}

/// the canonical encoding of a public key, as it enters signed payloads
fn canon_key(k: &schema::PublicKey) -> Result<schema::PublicKey, String> {
    match k.algorithm {
        0 => {
            if k.key.len() != 32 {
                return Err("ed key length".into());
            }
            Ok(k.clone())
        }
        1 => {
            let vk =
                p256::ecdsa::VerifyingKey::from_sec1_bytes(&k.key).map_err(|e| e.to_string())?;
            Ok(schema::PublicKey {
                algorithm: 1,
                key: vk.to_encoded_point(true).as_bytes().to_vec(),
            })
        }
        a => Err(format!("unknown algorithm {a}")),
    }
}

/// verifies the whole token per the specification; returns per-block signature versions
pub fn rsig_verify(bytes: &[u8], root_alg: i32, root_key: &[u8]) -> Result<Vec<u32>, String> {
    rsig_verify_mode(bytes, root_alg, root_key, false)
}

/// `legacy`: what only `unsafe_deprecated_deserialize` admits - third-party blocks with signature version 0,
/// whose external signature covers the payload and the previous block's next key
pub fn rsig_verify_mode(bytes: &[u8], root_alg: i32, root_key: &[u8], legacy: bool) -> Result<Vec<u32>, String> {
    let t = schema::Biscuit::decode(bytes).map_err(|e| format!("decode: {e}"))?;
    let mut versions = vec![];
    let mut cur_alg = root_alg;
    let mut cur_key = root_key.to_vec();
    let mut prev_sig: Vec<u8> = vec![];
    let all: Vec<&schema::SignedBlock> = std::iter::once(&t.authority).chain(t.blocks.iter()).collect();
    for (i, b) in all.iter().enumerate() {
        let v = b.version.unwrap_or(0);
        let next = canon_key(&b.next_key)?;
        let ext = b.external_signature.as_ref();
        if i == 0 && ext.is_some() {
            return Err("authority with external signature".into());
        }
        if ext.is_some() && v != 1 && !(legacy && v == 0) {
            return Err("third-party block must use signature version 1".into());
        }
        let m = payload_block(
            v,
            i == 0,
            &b.block,
            &next,
            ext.map(|e| &e.signature[..]),
            &prev_sig,
        )?;
        raw_verify(cur_alg, &cur_key, &m, &b.signature)
            .map_err(|e| format!("block {i} signature: {e}"))?;
        if let Some(e) = ext {
            let ek = canon_key(&e.public_key)?;
            let m = if v == 0 { payload_external_v0(&b.block, &schema::PublicKey { algorithm: cur_alg, key: cur_key.clone() }) } else { payload_external(&b.block, &prev_sig) };
            raw_verify(ek.algorithm, &ek.key, &m, &e.signature)
                .map_err(|e| format!("block {i} external signature: {e}"))?;
        }
        versions.push(v);
        cur_alg = next.algorithm;
        cur_key = next.key.clone();
        prev_sig = b.signature.clone();
    }
    let last = all.last().unwrap();
    match &t.proof.content {
        Some(schema::proof::Content::NextSecret(s)) => {
            let pk = match cur_alg {
                0 => {
                    let sb: [u8; 32] = s[..].try_into().map_err(|_| "secret length")?;
                    ed25519_dalek::SigningKey::from_bytes(&sb)
                        .verifying_key()
                        .to_bytes()
                        .to_vec()
                }
                1 => {
                    let sk = p256::ecdsa::SigningKey::from_slice(s).map_err(|e| e.to_string())?;
                    sk.verifying_key().to_encoded_point(true).as_bytes().to_vec()
                }
                _ => return Err("alg".into()),
            };
            if pk != cur_key {
                return Err("proof secret does not match last next key".into());
            }
        }
        Some(schema::proof::Content::FinalSignature(sig)) => {
            let next = canon_key(&last.next_key)?;
            let mut m = last.block.clone();
            m.extend_from_slice(&le32(next.algorithm));
            m.extend_from_slice(&next.key);
            m.extend_from_slice(&last.signature);
            raw_verify(cur_alg, &cur_key, &m, sig).map_err(|e| format!("seal: {e}"))?;
        }
        None => return Err("no proof".into()),
    }
    Ok(versions)
}

/// independent signer (used to build adversarial but correctly signed tokens)
pub fn raw_sign(kp: &KeyPair, msg: &[u8]) -> Vec<u8> {
    match kp.private() {
        PrivateKey::Ed25519(_) => {
            use ed25519_dalek::Signer;
            let b = kp.private().to_bytes();
            let sb: [u8; 32] = b[..].try_into().unwrap();
            ed25519_dalek::SigningKey::from_bytes(&sb)
                .sign(msg)
                .to_bytes()
                .to_vec()
        }
        PrivateKey::P256(_) => {
            use p256::ecdsa::signature::Signer;
            let b = kp.private().to_bytes();
            let sk = p256::ecdsa::SigningKey::from_slice(&b).unwrap();
            let s: p256::ecdsa::Signature = sk.sign(msg);
            s.to_der().as_bytes().to_vec()
        }
    }
}

pub fn alg_of(kp: &KeyPair) -> Alg {
    match kp {
        KeyPair::Ed25519(_) => Alg::Ed,
        KeyPair::P256(_) => Alg::P256,
    }
}

pub fn proto_key(k: &PublicKey) -> schema::PublicKey {
    k.to_proto()
}

/// one block description for the harness signer
pub struct RawBlock {
    pub payload: Vec<u8>,
    pub next: KeyPair,
    /// external signer (third-party block)
    pub ext: Option<KeyPair>,
    pub sig_version: u32,
}

/// signs a chain of raw block payloads per the specification with the harness' own signer
pub fn sign_chain(rootk: &KeyPair, blocks: Vec<RawBlock>, seal: bool, kid: Option<u32>) -> Vec<u8> {
    let mut signed: Vec<schema::SignedBlock> = vec![];
    let mut prev_sig: Vec<u8> = vec![];
    let mut cur = KeyPair::from(&rootk.private());
    let n = blocks.len();
    let mut last_secret: Option<PrivateKey> = None;
    for (i, b) in blocks.into_iter().enumerate() {
        let next_pk = proto_key(&b.next.public());
        let ext_sig = b.ext.as_ref().map(|e| {
            let m = payload_external(&b.payload, &prev_sig);
            schema::ExternalSignature {
                signature: raw_sign(e, &m),
                public_key: proto_key(&e.public()),
            }
        });
        let m = payload_block(
            b.sig_version,
            i == 0,
            &b.payload,
            &next_pk,
            ext_sig.as_ref().map(|e| &e.signature[..]),
            &prev_sig,
        )
        .unwrap();
        let sig = raw_sign(&cur, &m);
        prev_sig = sig.clone();
        signed.push(schema::SignedBlock {
            block: b.payload,
            next_key: next_pk,
            signature: sig,
            external_signature: ext_sig,
            version: if b.sig_version > 0 {
                Some(b.sig_version)
            } else {
                None
            },
        });
        cur = KeyPair::from(&b.next.private());
        if i == n - 1 {
            last_secret = Some(b.next.private());
        }
    }
    let last = signed.last().unwrap().clone();
    let proof = if seal {
        let mut m = last.block.clone();
        m.extend_from_slice(&le32(last.next_key.algorithm));
        m.extend_from_slice(&last.next_key.key);
        m.extend_from_slice(&last.signature);
        schema::proof::Content::FinalSignature(raw_sign(&cur, &m))
    } else {
        schema::proof::Content::NextSecret(last_secret.unwrap().to_bytes().to_vec())
    };
    let authority = signed.remove(0);
    let t = schema::Biscuit {
        root_key_id: kid,
        authority,
        blocks: signed,
        proof: schema::Proof {
            content: Some(proof),
        },
    };
    t.encode_to_vec()
}

//! C16 — blocks declare the language version they need; under-declared blocks are refused.
use crate::c02::expected_sig_versions;
use crate::common::*;
use crate::ehist;
use crate::tok::*;
use biscuit_auth::builder as b;
use biscuit_auth::datalog::SymbolTable;
use biscuit_auth::format::schema;
use biscuit_auth::{AuthorizerBuilder, Biscuit};
use prost::Message;
use rayon::prelude::*;
use serde_json::json;
use std::sync::atomic::{AtomicUsize, Ordering};

#[derive(Clone, Debug)]
pub struct Feature {
    pub name: String,
    /// Datalog source of a block that uses exactly this feature on top of 3.0 basics
    pub src: String,
    /// block-level scope to add through the builder (not expressible in block source)
    pub block_scope: bool,
    /// minimum block version per the specification (R-ver)
    pub min: u32,
}

/// R-ver: feature -> minimum version, written from the specification's version history
pub fn features() -> Vec<Feature> {
    let mut v: Vec<Feature> = vec![];
    let mut add = |name: &str, src: &str, min: u32| v.push(Feature { name: name.to_string(), src: src.to_string(), block_scope: false, min });
    // ---- term kinds in every position
    let terms: Vec<(&str, &str, u32)> = vec![
        ("integer", "1", 3),
        ("string", "\"a\"", 3),
        ("date", "2020-01-01T00:00:00Z", 3),
        ("bytes", "hex:01", 3),
        ("bool", "true", 3),
        ("set", "{1, 2}", 3),
        ("set-of-strings", "{\"a\"}", 3),
        ("null", "null", 6),
        ("array", "[1, 2]", 6),
        ("empty-array", "[]", 6),
        ("map", "{\"k\": 1}", 6),
        ("map-int-key", "{1: true}", 6),
        ("array-of-null", "[null]", 6),
        ("nested-array", "[[1], [2]]", 6),
        ("map-with-null-value", "{\"k\": null}", 6),
        ("map-with-array-value", "{\"k\": [1]}", 6),
        ("array-of-map", "[{\"k\": 1}]", 6),
        ("array-of-set", "[{1}]", 6),
    ];
    for (tn, t, min) in &terms {
        add(&format!("term/{tn}/fact"), &format!("f({t});"), *min);
        add(&format!("term/{tn}/rule-head"), &format!("g(1); r({t}) <- g($x);"), *min);
        add(&format!("term/{tn}/rule-body"), &format!("g(1, {t}); r($x) <- g($x, {t});"), *min);
        add(&format!("term/{tn}/check-body"), &format!("check if g($x, {t});"), *min);
        add(&format!("term/{tn}/rule-expression-operand"), &format!("g(1); r($x) <- g($x), {t} === {t};"), *min);
        add(&format!("term/{tn}/check-expression-operand"), &format!("check if g($x), {t} === {t};"), *min);
    }
    // ---- operators and methods
    let ops: Vec<(&str, &str, u32)> = vec![
        ("less-than", "$x < 2", 3),
        ("greater-than", "$x > 2", 3),
        ("less-or-equal", "$x <= 2", 3),
        ("greater-or-equal", "$x >= 2", 3),
        ("strict-equal", "$x === 2", 3),
        ("contains", "\"abc\".contains(\"b\")", 3),
        ("starts_with", "\"abc\".starts_with(\"a\")", 3),
        ("ends_with", "\"abc\".ends_with(\"c\")", 3),
        ("matches", "\"abc\".matches(\"a.c\")", 3),
        ("add", "$x + 1 === 2", 3),
        ("sub", "$x - 1 === 0", 3),
        ("mul", "$x * 2 === 2", 3),
        ("div", "$x / 1 === 1", 3),
        ("intersection", "{1, 2}.intersection({1}).length() === 1", 3),
        ("union", "{1}.union({2}).length() === 2", 3),
        ("length", "\"abc\".length() === 3", 3),
        ("negate", "!false", 3),
        ("parens", "(true)", 3),
        ("set-contains", "{1, 2}.contains($x)", 3),
        ("bitwise-and", "$x & 1 === 1", 4),
        ("bitwise-or", "$x | 1 === 1", 4),
        ("bitwise-xor", "$x ^ 1 === 0", 4),
        ("strict-not-equal", "$x !== 2", 4),
        ("heterogeneous-equal", "$x == 1", 6),
        ("heterogeneous-not-equal", "$x != 2", 6),
        ("lazy-and", "true && true", 6),
        ("lazy-or", "false || true", 6),
        ("all-closure", "{1, 2}.all($p -> $p > 0)", 6),
        ("any-closure", "{1, 2}.any($p -> $p > 1)", 6),
        ("type", "$x.type() === \"integer\"", 6),
        ("get", "[1, 2].get(0) === 1", 6),
        ("map-get", "{\"k\": 1}.get(\"k\") === 1", 6),
        ("extern-unary", "$x.extern::f()", 6),
        ("extern-binary", "$x.extern::f(1)", 6),
    ];
    for (on, e, min) in &ops {
        add(&format!("op/{on}/rule"), &format!("g(1); r($x) <- g($x), {e};"), *min);
        add(&format!("op/{on}/check"), &format!("check if g($x), {e};"), *min);
    }
    // ---- check kinds
    add("check/if", "check if g($x);", 3);
    add("check/if-two-alternatives", "check if g($x) or h($x);", 3);
    add("check/all", "check all g($x), $x > 0;", 4);
    add("check/reject", "reject if g($x);", 6);
    // ---- scopes
    let k1s = pk_str(&k1().public());
    let k2s = pk_str(&k2().public());
    for (sn, sc) in [("authority", "authority".to_string()), ("previous", "previous".to_string()), ("ed25519-key", k1s.clone()), ("secp256r1-key", k2s.clone()), ("two", format!("authority, {k1s}"))] {
        add(&format!("scope/rule/{sn}"), &format!("g(1); r($x) <- g($x) trusting {sc};"), 4);
        add(&format!("scope/check/{sn}"), &format!("check if g($x) trusting {sc};"), 4);
        add(&format!("scope/check-all/{sn}"), &format!("check all g($x), $x > 0 trusting {sc};"), 4);
    }
    v.push(Feature { name: "scope/block".into(), src: "g(1);".into(), block_scope: true, min: 4 });
    v.push(Feature { name: "plain".into(), src: "g(1); r($x) <- g($x); check if g(1);".into(), block_scope: false, min: 3 });
    v
}

fn builder_of(f: &Feature) -> Result<b::BlockBuilder, String> {
    let mut bb = b::BlockBuilder::new().code(&f.src).map_err(|e| format!("{e:?}"))?;
    if f.block_scope {
        bb = bb.scope(b::Scope::Authority);
    }
    Ok(bb)
}

fn biscuit_of(bb: &b::BlockBuilder) -> Result<Biscuit, String> {
    let mut bld = b::BiscuitBuilder::new();
    for f in &bb.facts {
        bld = bld.fact(f.clone()).map_err(|e| format!("{e:?}"))?;
    }
    for r in &bb.rules {
        bld = bld.rule(r.clone()).map_err(|e| format!("{e:?}"))?;
    }
    for c in &bb.checks {
        bld = bld.check(c.clone()).map_err(|e| format!("{e:?}"))?;
    }
    for s in &bb.scopes {
        bld = bld.scope(s.clone());
    }
    bld.build_with_key_pair(&root(Alg::Ed), SymbolTable::new(), &key(Alg::Ed, ROLE_NEXT, 0)).map_err(|e| format!("{e:?}"))
}

pub fn run(tier: Tier) {
    let ctx = Ctx::new("C16", tier);
    let feats = features();
    let built = AtomicUsize::new(0);
    let loads = AtomicUsize::new(0);
    let accepted = AtomicUsize::new(0);
    let samples_out = Samples::new(6);
    let rootk = root(Alg::Ed);
    let plain_auth: Vec<u8> = {
        let t = biscuit_of(&b::BlockBuilder::new().code("base(0);").unwrap()).unwrap();
        schema::Biscuit::decode(&t.to_vec().unwrap()[..]).unwrap().authority.block
    };

    // ---------------- builder side + loader side, per feature
    feats.par_iter().enumerate().for_each(|(fi, f)| {
        let bb = match builder_of(f) {
            Ok(b) => b,
            Err(e) => {
                ctx.violation(format!("C16/feature-source-does-not-parse/{}", f.name), json!({"src": f.src, "error": e}));
                return;
            }
        };
        let case = || json!({"feature": f.name, "source": f.src, "required_version": f.min});
        // as authority
        let t0 = match guard(|| biscuit_of(&bb)) {
            Ok(Ok(t)) => t,
            other => {
                ctx.violation_lazy(format!("C16/build-refused/{}", f.name), || json!({"case": case(), "error": format!("{:?}", other.map(|r| r.map(|_| ())))}));
                return;
            }
        };
        built.fetch_add(1, Ordering::Relaxed);
        let class = f.name.rsplitn(2, '/').last().unwrap_or(&f.name).to_string();
        let v0 = t0.block_version(0).unwrap_or(0);
        if v0 != f.min {
            ctx.violation_lazy(format!("C16/builder-declares-wrong-version/authority/{}", f.name), || json!({"case": case(), "declared": v0}));
        }
        // as first-party block 1 and as third-party block 1
        let base = biscuit_of(&b::BlockBuilder::new().code("base(0);").unwrap()).unwrap();
        if let Ok(Ok(t1)) = guard(|| base.append_with_keypair(&key(Alg::Ed, ROLE_NEXT, 1), bb.clone())) {
            built.fetch_add(1, Ordering::Relaxed);
            let v1 = t1.block_version(1).unwrap_or(0);
            if v1 != f.min {
                ctx.violation_lazy(format!("C16/builder-declares-wrong-version/block/{}", f.name), || json!({"case": case(), "declared": v1}));
            }
            // signature version: v1 iff 3.3 content (all keys ed25519 here)
            let sigv = schema::Biscuit::decode(&t1.to_vec().unwrap()[..]).map(|p| p.blocks[0].version.unwrap_or(0)).unwrap_or(99);
            if sigv != if f.min >= 6 { 1 } else { 0 } {
                ctx.violation_lazy(format!("C16/signature-version-for-content/{class}"), || json!({"case": case(), "signature_version": sigv}));
            }
        } else {
            ctx.violation_lazy(format!("C16/append-refused/{}", f.name), case);
        }
        let tp = guard(|| {
            let req = base.third_party_request().map_err(|e| format!("{e:?}"))?;
            let resp = req.create_block(&k1().private(), bb.clone()).map_err(|e| format!("{e:?}"))?;
            base.append_third_party_with_keypair(k1().public(), resp, key(Alg::Ed, ROLE_NEXT, 1)).map_err(|e| format!("{e:?}"))
        });
        match tp {
            Ok(Ok(t)) => {
                built.fetch_add(1, Ordering::Relaxed);
                let v = t.block_version(1).unwrap_or(0);
                if v != f.min.max(5) {
                    ctx.violation_lazy(format!("C16/builder-declares-wrong-version/third-party/{}", f.name), || json!({"case": case(), "declared": v, "expected": f.min.max(5)}));
                }
            }
            other => ctx.violation_lazy(format!("C16/third-party-append-refused/{}", f.name), || json!({"case": case(), "error": format!("{:?}", other.map(|r| r.map(|_| ())))})),
        }
        // ---- loader side: re-declare with every version, sign with the harness signer
        let proto = schema::Biscuit::decode(&t0.to_vec().unwrap()[..]).unwrap();
        let blk = schema::Block::decode(&proto.authority.block[..]).unwrap();
        let versions: Vec<Option<u32>> = vec![None, Some(0), Some(1), Some(2), Some(3), Some(4), Some(5), Some(6), Some(7), Some(8), Some(u32::MAX)];
        for v in versions {
            let mut m = blk.clone();
            m.version = v;
            let payload = m.encode_to_vec();
            let dv = v.unwrap_or(0);
            for position in ["authority", "block", "third-party"] {
                let bytes = match position {
                    "authority" => sign_chain(&rootk, vec![RawBlock { payload: payload.clone(), next: key(Alg::Ed, ROLE_NEXT, 0), ext: None, sig_version: 1 }], false, None),
                    "block" => sign_chain(
                        &rootk,
                        vec![RawBlock { payload: plain_auth.clone(), next: key(Alg::Ed, ROLE_NEXT, 0), ext: None, sig_version: 1 }, RawBlock { payload: payload.clone(), next: key(Alg::Ed, ROLE_NEXT, 1), ext: None, sig_version: 1 }],
                        false,
                        None,
                    ),
                    _ => sign_chain(
                        &rootk,
                        vec![RawBlock { payload: plain_auth.clone(), next: key(Alg::Ed, ROLE_NEXT, 0), ext: None, sig_version: 1 }, RawBlock { payload: payload.clone(), next: key(Alg::Ed, ROLE_NEXT, 1), ext: Some(k1()), sig_version: 1 }],
                        false,
                        None,
                    ),
                };
                loads.fetch_add(1, Ordering::Relaxed);
                let should = (3..=6).contains(&dv) && dv >= f.min && (position != "third-party" || dv >= 5);
                let got = guard(|| {
                    let t = Biscuit::from(&bytes, rootk.public()).map_err(|e| format!("from: {e:?}"))?;
                    let _a = AuthorizerBuilder::new().code("allow if true;").unwrap().limits(crate::c04::big_limits()).build(&t).map_err(|e| format!("authorizer: {e:?}"))?;
                    Ok::<_, String>(())
                });
                match got {
                    Err(p) => ctx.violation_lazy(format!("C16/panic/{}", panic_site(&p)), || json!({"case": case(), "declared": format!("{v:?}"), "position": position, "panic": p})),
                    Ok(r) => {
                        if r.is_ok() {
                            accepted.fetch_add(1, Ordering::Relaxed);
                        }
                        if r.is_ok() != should {
                            let what = if r.is_ok() {
                                if !(3..=6).contains(&dv) {
                                    "version-outside-supported-range-accepted"
                                } else if position == "third-party" && dv < 5 {
                                    "third-party-block-below-3.2-accepted"
                                } else {
                                    "under-declared-block-accepted"
                                }
                            } else {
                                "correctly-declared-block-refused"
                            };
                            ctx.violation_lazy(format!("C16/{what}/{position}/declared={dv}/{class}"), || json!({"case": case(), "declared": format!("{v:?}"), "position": position, "result": format!("{r:?}"), "token_hex": hex::encode(&bytes)}));
                        }
                    }
                }
            }
        }
        if fi % 37 == 0 {
            samples_out.push(|| json!({"feature": f.name, "source": f.src, "required": f.min, "declared_by_builder": v0}));
        }
    });

    // ---------------- pairs of features: the declared version is the maximum
    let mut pair_n = 0usize;
    let reps: Vec<&Feature> = feats.iter().filter(|f| !f.block_scope && (f.name.ends_with("/fact") || f.name.ends_with("/check") || f.name.starts_with("check/") || f.name.starts_with("scope/rule"))).collect();
    let pairs: Vec<(usize, usize)> = (0..reps.len()).flat_map(|i| ((i + 1)..reps.len()).map(move |j| (i, j))).filter(|_| true).collect();
    pair_n += pairs.len();
    pairs.par_iter().for_each(|(i, j)| {
        let (a, c) = (reps[*i], reps[*j]);
        let src = format!("{} {}", a.src, c.src);
        if let Ok(bb) = b::BlockBuilder::new().code(&src) {
            if let Ok(Ok(t)) = guard(|| biscuit_of(&bb)) {
                let v = t.block_version(0).unwrap_or(0);
                if v != a.min.max(c.min) {
                    ctx.violation_lazy(format!("C16/pair-declares-wrong-version/{}+{}", a.name, c.name), || json!({"source": src, "declared": v, "expected": a.min.max(c.min)}));
                }
            }
        }
    });

    // ---------------- signature version along key-algorithm sequences (E-hist)
    let depth = tier.pick(5, 6);
    let sig_states = AtomicUsize::new(0);
    let initial: Vec<Op> = ALGS.iter().flat_map(|r| ALGS.iter().flat_map(move |n| ["b0", "b5"].into_iter().map(move |c| Op::Build { root: *r, next: *n, content: c, kid: None }))).collect();
    let next = |_h: &[Op], _t: &Tok| {
        let mut v = vec![];
        for n in ALGS {
            v.push(Op::Append { next: n, content: "b0" });
            v.push(Op::AppendTp { ext: Alg::Ed, next: n, content: "t1" });
        }
        v.push(Op::Append { next: Alg::Ed, content: "b5" });
        v
    };
    let st = ehist::bfs(
        initial,
        depth,
        2_000_000,
        &next,
        &|h, t| {
            sig_states.fetch_add(1, Ordering::Relaxed);
            let bytes = t.to_vec().unwrap_or_default();
            if let Ok(p) = schema::Biscuit::decode(&bytes[..]) {
                let declared: Vec<u32> = std::iter::once(&p.authority).chain(p.blocks.iter()).map(|b| b.version.unwrap_or(0)).collect();
                let exp = expected_sig_versions(h);
                if declared != exp {
                    let kind = if declared.windows(2).any(|w| w[0] > w[1]) { "switches-back" } else { "wrong" };
                    ctx.violation_lazy(format!("C16/signature-version-{kind}/{}", crate::c01::token_class(h)), || json!({"history": show_hist(h), "declared": declared, "prescribed": exp}));
                }
            }
        },
        &|_, _, _, _| {},
        &|_, _, _, _| {},
    );

    let cov = json!({
        "evaluations": built.load(Ordering::Relaxed) + loads.load(Ordering::Relaxed) + pair_n + st.states,
        "distinct_nontrivial": loads.load(Ordering::Relaxed) - accepted.load(Ordering::Relaxed),
        "features": feats.len(),
        "blocks_built_through_builders": built.load(Ordering::Relaxed),
        "redeclared_blocks_loaded (feature x version x position)": loads.load(Ordering::Relaxed),
        "of_which_accepted": accepted.load(Ordering::Relaxed),
        "feature_pairs": pair_n,
        "signature_version_states": {"states": st.states, "transitions": st.transitions, "depth_after_build": st.max_depth},
        "exhaustive": true,
        "samples": samples_out.take(),
        "rule": "one block per feature of the reference table R-ver (every term kind at top level and nested, in fact / rule head / rule body / check body / expression operand positions; every operator and method in rule and check expressions; check kinds; scopes at block, rule and check level with both key algorithms): built as authority, first-party block and third-party block, block_version() must equal the table's minimum (>= 5 for third-party); each block re-declared with every version in {absent, 0..8, u32::MAX}, re-signed by the harness as authority / block 1 / third-party block 1: loads and builds an authorizer iff 3 <= declared <= 6, declared >= required and >= 5 for third-party; all (sampled in quick) pairs of features declare the maximum; E-hist over key-algorithm sequences: per-block signature versions equal the prescribed ones and never switch back. distinct_nontrivial = re-declared blocks that were refused",
    });
    ctx.finish("exploration", cov, vec!["R-ver (DESIGN Appendix B) is the definition of feature -> minimum version".into()]);
}

//! C12 — a token means the same in memory and after a round trip, on every API path.
use crate::common::*;
use crate::ehist;
use crate::tok::*;
use biscuit_auth::builder as b;
use biscuit_auth::format::schema;
use biscuit_auth::{Authorizer, AuthorizerBuilder, Biscuit, UnverifiedBiscuit};
use prost::Message;
use serde_json::json;
use std::sync::atomic::{AtomicUsize, Ordering};

const SIGMA: &[&str] = &["b0", "b1", "b2", "b3", "b4", "b5", "b6", "b7"];
const TPS: &[&str] = &["t0", "t1", "t2"];

fn authorizer_panel() -> Vec<(&'static str, String)> {
    let k1 = pk_str(&k1().public());
    let k2 = pk_str(&k2().public());
    vec![
        ("allow-all", "allow if true;".to_string()),
        ("facts-for-every-predicate", r#"s("file1"); s("x"); right("file1","read"); tp("zz"); n(null); allow if true;"#.to_string()),
        ("query-strings", r#"seen($x) <- s($x); seen($x) <- right($x, $y); check if seen("file1"); allow if true;"#.to_string()),
        ("trust-k1", format!("got($x) <- tp($x) trusting {k1}; got($x) <- s($x) trusting {k1}; allow if got($x); deny if true;")),
        ("trust-k2", format!("got($x) <- tp($x) trusting {k2}; got($x) <- read($x) trusting {k2}; allow if got($x); deny if true;")),
        ("trust-both", format!("got($x) <- tp($x) trusting {k1}, {k2}; own2($x) <- own($x) trusting {k1}, {k2}; allow if own2($x); allow if got($x); deny if true;")),
        ("new-symbols", r#"s("never seen before"); other("other"); check if s($x), $x.starts_with("never"); allow if other("other");"#.to_string()),
        ("default-symbols-as-strings", r#"s("read"); s("write"); right("read","right"); check if right($a, $b); allow if s("read");"#.to_string()),
    ]
}

const QUERIES: [&str; 7] = ["q($x) <- s($x)", "q($x, $y) <- right($x, $y)", "q($x) <- tp($x)", "q($x) <- read($x)", "q($x) <- own($x)", "q($x) <- q($x)", "q($x) <- n($x)"];

fn authorizer_view(t: &Biscuit, code: &str) -> String {
    let r = guard(|| {
        let mut a: Authorizer = AuthorizerBuilder::new().code(code).map_err(|e| format!("code: {e:?}"))?.limits(crate::c04::big_limits()).build(t).map_err(|e| format!("build: {e:?}"))?;
        let res = crate::c04::real_decision(&a.authorize()).map(|d| format!("{d:?}")).unwrap_or_else(|e| format!("Err({e})"));
        let mut out = format!("{res}\n{}", a.print_world());
        for q in QUERIES {
            let r: Result<Vec<b::Fact>, _> = a.query_all(q);
            out += &match r {
                Ok(v) => {
                    let mut s: Vec<String> = v.iter().map(|f| f.to_string()).collect();
                    s.sort();
                    format!("\n{q} = {s:?}")
                }
                Err(e) => format!("\n{q} = Err({e:?})"),
            };
        }
        Ok::<_, String>(out)
    });
    match r {
        Ok(Ok(s)) => s,
        Ok(Err(e)) => format!("ERROR {e}"),
        Err(p) => format!("PANIC {}", panic_site(&p)),
    }
}

fn token_view(t: &Biscuit) -> Vec<(String, String)> {
    let n = t.block_count();
    let mut v = vec![("print".to_string(), t.print())];
    for i in 0..n {
        v.push((format!("print_block_source({i})"), format!("{:?}", t.print_block_source(i))));
        v.push((format!("block_symbols({i})"), format!("{:?}", t.block_symbols(i))));
        v.push((format!("block_public_keys({i})"), format!("{:?}", t.block_public_keys(i))));
        v.push((format!("block_version({i})"), format!("{:?}", t.block_version(i))));
        v.push((format!("block_external_key({i})"), format!("{:?}", t.block_external_key(i).map(|k| k.map(|k| pk_str(&k))))));
    }
    v.push(("context".into(), format!("{:?}", t.context())));
    v
}

fn unverified_view(t: &UnverifiedBiscuit) -> Vec<(String, String)> {
    let n = t.block_count();
    let mut v = vec![];
    for i in 0..n {
        v.push((format!("U.print_block_source({i})"), format!("{:?}", t.print_block_source(i))));
        v.push((format!("U.block_version({i})"), format!("{:?}", t.block_version(i))));
    }
    v.push(("U.external_public_keys".into(), format!("{:?}", t.external_public_keys().iter().map(|k| k.map(|k| pk_str(&k))).collect::<Vec<_>>())));
    v
}

/// source an author wrote for content `c`, printed by the builder (canonical spelling)
fn intended_items(c: &str) -> Vec<String> {
    let bb = block_of(c);
    let mut v: Vec<String> = bb.facts.iter().map(|f| f.to_string()).collect();
    v.extend(bb.rules.iter().map(|r| r.to_string()));
    v.extend(bb.checks.iter().map(|c| c.to_string()));
    v
}

fn parsed_items(src: &str) -> Result<Vec<String>, String> {
    let bb = b::BlockBuilder::new().code(src).map_err(|e| format!("{e:?}"))?;
    let mut v: Vec<String> = bb.facts.iter().map(|f| f.to_string()).collect();
    v.extend(bb.rules.iter().map(|r| r.to_string()));
    v.extend(bb.checks.iter().map(|c| c.to_string()));
    Ok(v)
}

fn contents_of(h: &[Op]) -> Vec<&'static str> {
    h.iter()
        .filter_map(|o| match o {
            Op::Build { content, .. } | Op::Append { content, .. } | Op::AppendTp { content, .. } => Some(*content),
            _ => None,
        })
        .collect()
}

fn shape(h: &[Op]) -> String {
    // history without key algorithms: stable violation keys
    h.iter()
        .map(|o| match o {
            Op::Build { content, .. } => format!("build({content})"),
            Op::Append { content, .. } => format!("append({content})"),
            Op::AppendTp { content, ext, .. } => format!("append_tp({content},{})", ext.name()),
            Op::Seal => "seal".into(),
            Op::Convert => "convert".into(),
            Op::Reload => "reload".into(),
        })
        .collect::<Vec<_>>()
        .join(";")
}

fn check_state(ctx: &Ctx, h: &[Op], t: &Tok, panel: &[(&'static str, String)], light: bool) {
    let rootk = root(Alg::Ed).public();
    let hs = shape(h);
    let bytes = match t.to_vec() {
        Ok(b) => b,
        Err(e) => return ctx.violation(format!("C12/to_vec/{hs}"), json!({"error": e})),
    };
    let case = |what: &str, a: &str, bq: &str| json!({"history": show_hist(h), "kind": t.kind(), "what": what, "in_memory": a, "reloaded": bq, "token_hex": hex::encode(&bytes)});
    let mem = match guard(|| t.verified(&rootk)) {
        Ok(Ok(m)) => m,
        other => return ctx.violation(format!("C12/in-memory-does-not-verify/{hs}"), json!({"error": format!("{other:?}")})),
    };
    let reloaded = match guard(|| Biscuit::from(&bytes, rootk)) {
        Ok(Ok(r)) => r,
        other => return ctx.violation(format!("C12/reload-refused/{hs}"), json!({"history": show_hist(h), "error": format!("{:?}", other.map(|r| r.map(|_| ()))), "token_hex": hex::encode(&bytes)})),
    };
    // (1) views
    let (mv, rv) = match guard(|| (token_view(&mem), token_view(&reloaded))) {
        Ok(x) => x,
        Err(p) => return ctx.violation(format!("C12/panic/{}", panic_site(&p)), json!({"history": show_hist(h), "panic": p})),
    };
    for ((name, a), (_, bq)) in mv.iter().zip(rv.iter()) {
        if a != bq {
            let field = name.split('(').next().unwrap_or(name).to_string();
            ctx.violation_lazy(format!("C12/{field}-differs/{}/{hs}", t.kind()), || case(name, a, bq));
        }
    }
    if let Tok::U(u) = t {
        match guard(|| UnverifiedBiscuit::from(&bytes).map(|r| (unverified_view(u), unverified_view(&r)))) {
            Ok(Ok((a, bq))) => {
                for ((name, x), (_, y)) in a.iter().zip(bq.iter()) {
                    if x != y {
                        let field = name.split('(').next().unwrap_or(name).to_string();
                        ctx.violation_lazy(format!("C12/{field}-differs/{hs}"), || case(name, x, y));
                    }
                }
            }
            other => ctx.violation(format!("C12/unverified-reload-refused/{hs}"), json!({"error": format!("{:?}", other.map(|r| r.map(|_| ())))})),
        }
    }
    // (2) every printed reference resolves to what the author wrote
    let contents = contents_of(h);
    for (i, c) in contents.iter().enumerate() {
        let src = match reloaded.print_block_source(i) {
            Ok(s) => s,
            Err(e) => {
                ctx.violation(format!("C12/print_block_source-error/{hs}"), json!({"block": i, "error": format!("{e:?}")}));
                continue;
            }
        };
        match parsed_items(&src) {
            Ok(items) => {
                let want = intended_items(c);
                if items != want {
                    ctx.violation_lazy(format!("C12/block-does-not-mean-what-its-author-wrote/{c}/{hs}"), || json!({"history": show_hist(h), "block": i, "content": c, "written": want, "printed_after_reload": items, "source": src}));
                }
            }
            Err(e) => ctx.violation_lazy(format!("C12/printed-source-does-not-parse/{c}/{hs}"), || json!({"history": show_hist(h), "block": i, "source": src, "error": e})),
        }
    }
    // (3) same authorization with any authorizer
    if !light {
        for (name, code) in panel {
            let a = authorizer_view(&mem, code);
            let bq = authorizer_view(&reloaded, code);
            if a != bq {
                ctx.violation_lazy(format!("C12/authorization-differs/{name}/{}/{hs}", t.kind()), || case(name, &a, &bq));
            }
        }
    }
}

/// harness-signed tokens whose block 1 redeclares a symbol / key
fn redeclaration(ctx: &Ctx) -> (usize, usize) {
    let rootk = root(Alg::Ed);
    let base = run_hist(&[Op::Build { root: Alg::Ed, next: Alg::Ed, content: "b1", kid: None }, Op::Append { next: Alg::Ed, content: "b3" }]).unwrap();
    let proto = schema::Biscuit::decode(&base.to_vec().unwrap()[..]).unwrap();
    let b0 = proto.authority.block.clone();
    let b1 = schema::Block::decode(&proto.blocks[0].block[..]).unwrap();
    let b0p = schema::Block::decode(&b0[..]).unwrap();
    let mut cases: Vec<(&str, schema::Block)> = vec![];
    let mut m = b1.clone();
    m.symbols.push(b0p.symbols[0].clone());
    cases.push(("symbol-of-earlier-block", m));
    let mut m = b1.clone();
    m.symbols.push("read".into());
    cases.push(("default-symbol", m));
    let mut m = b1.clone();
    m.symbols.push("dup".into());
    m.symbols.push("dup".into());
    cases.push(("symbol-twice-in-own-table", m));
    let mut m = b1.clone();
    m.public_keys.push(b1.public_keys[0].clone());
    cases.push(("public-key-twice-in-own-table", m));
    // authority that declares K1, then block 1 declares it again
    let auth_k1 = {
        let t = run_hist(&[Op::Build { root: Alg::Ed, next: Alg::Ed, content: "b3", kid: None }]).unwrap();
        schema::Biscuit::decode(&t.to_vec().unwrap()[..]).unwrap().authority.block
    };
    let mut n_first = 0;
    let mut n_third = 0;
    let mk = |auth: &Vec<u8>, blk: &schema::Block, third: bool| {
        let mut blk = blk.clone();
        if third {
            blk.version = Some(blk.version.unwrap_or(3).max(5));
        }
        sign_chain(
            &rootk,
            vec![
                RawBlock { payload: auth.clone(), next: key(Alg::Ed, ROLE_NEXT, 0), ext: None, sig_version: 0 },
                RawBlock { payload: blk.encode_to_vec(), next: key(Alg::Ed, ROLE_NEXT, 1), ext: if third { Some(k2()) } else { None }, sig_version: if third { 1 } else { 0 } },
            ],
            false,
            None,
        )
    };
    let mut all: Vec<(String, Vec<u8>, schema::Block, bool)> = vec![];
    for (name, blk) in &cases {
        all.push((name.to_string(), b0.clone(), blk.clone(), false));
        all.push((name.to_string(), b0.clone(), blk.clone(), true));
    }
    all.push(("public-key-of-earlier-block".into(), auth_k1.clone(), b1.clone(), false));
    all.push(("public-key-of-earlier-block".into(), auth_k1.clone(), b1.clone(), true));
    // control: the unmodified block must load
    all.push(("control-unmodified".into(), b0.clone(), b1.clone(), false));
    for (name, auth, blk, third) in all {
        let bytes = mk(&auth, &blk, third);
        let loads: Vec<(&str, bool)> = vec![
            ("Biscuit::from", guard(|| Biscuit::from(&bytes, rootk.public()).is_ok()).unwrap_or(false)),
            ("UnverifiedBiscuit::from", guard(|| UnverifiedBiscuit::from(&bytes).is_ok()).unwrap_or(false)),
            ("Biscuit::from_base64", guard(|| Biscuit::from_base64(base64::encode_config(&bytes, base64::URL_SAFE), rootk.public()).is_ok()).unwrap_or(false)),
        ];
        let self_collision = name.contains("twice-in-own-table");
        for (path, ok) in loads {
            if third {
                n_third += 1;
                // a third-party block has its own tables: colliding with the carrier is fine;
                // a table that collides with itself is malformed either way
                if !ok && !self_collision {
                    ctx.violation(format!("C12/third-party-redeclaration-refused/{name}/{path}"), json!({"token_hex": hex::encode(&bytes)}));
                }
            } else {
                n_first += 1;
                let should_load = name == "control-unmodified";
                if self_collision {
                    // a table colliding with itself is outside the statement (which is about
                    // earlier blocks and the default table): recorded as an observation
                    ctx.observe(format!("first-party block whose own table lists an entry twice ({name}) via {path}: {}", if ok { "accepted" } else { "refused" }));
                    continue;
                }
                if ok != should_load {
                    ctx.violation(
                        format!("C12/first-party-redeclaration-{}/{name}/{path}", if ok { "accepted" } else { "control-refused" }),
                        json!({"token_hex": hex::encode(&bytes), "redeclares": name}),
                    );
                }
            }
        }
        if third && !self_collision {
            // isolation: the carrier's tables are those of the authority block alone
            if let Ok(t) = Biscuit::from(&bytes, rootk.public()) {
                let carrier = Biscuit::from(
                    &sign_chain(&rootk, vec![RawBlock { payload: auth.clone(), next: key(Alg::Ed, ROLE_NEXT, 0), ext: None, sig_version: 0 }], false, None),
                    rootk.public(),
                )
                .unwrap();
                let tables = |t: &Biscuit| t.print().lines().take(3).collect::<Vec<_>>().join("\n");
                if tables(&t) != tables(&carrier) {
                    ctx.violation(format!("C12/third-party-block-extends-carrier-tables/{name}"), json!({"with_block": tables(&t), "carrier": tables(&carrier)}));
                }
            }
        }
    }
    (n_first, n_third)
}

pub fn run(tier: Tier) {
    let ctx = Ctx::new("C12", tier);
    let depth = tier.pick(3, 4);
    let panel = authorizer_panel();
    let checked = AtomicUsize::new(0);
    let samples_out = Samples::new(6);
    let initial: Vec<Op> = SIGMA.iter().map(|c| Op::Build { root: Alg::Ed, next: Alg::Ed, content: c, kid: None }).collect();
    let next = |h: &[Op], t: &Tok| {
        let mut v = vec![];
        if !t.is_sealed() {
            for c in SIGMA {
                v.push(Op::Append { next: Alg::Ed, content: c });
            }
            for c in TPS {
                v.push(Op::AppendTp { ext: Alg::Ed, next: Alg::Ed, content: c });
            }
            // one secp256r1 variant per operation, at small depth
            if h.len() <= 2 {
                v.push(Op::Append { next: Alg::P256, content: "b4" });
                v.push(Op::AppendTp { ext: Alg::P256, next: Alg::P256, content: "t0" });
            }
            v.push(Op::Seal);
        }
        v.push(Op::Convert);
        v.push(Op::Reload);
        v
    };
    let refused = std::sync::Mutex::new(std::collections::BTreeMap::<String, usize>::new());
    let st = ehist::bfs(
        initial,
        depth,
        tier.pick(100_000, 30_000_000),
        &next,
        &|h, t| {
            // the authorizer panel on every state up to depth 2, and on every third state beyond
            let n = checked.fetch_add(1, Ordering::Relaxed);
            let light = h.len() > 3 && n % 3 != 0;
            check_state(&ctx, h, t, &panel, light);
            if h.len() == depth + 1 && n % 101 == 0 {
                samples_out.push(|| json!(show_hist(h)));
            }
        },
        &|_, _, _, _| {},
        &|_h, _t, op, e| {
            *refused.lock().unwrap().entry(format!("{} refused: {}", op.show(), e.chars().take(50).collect::<String>())).or_insert(0) += 1;
        },
    );
    for (k, v) in refused.into_inner().unwrap() {
        ctx.observe(format!("{k} (x{v})"));
    }
    let (n_first, n_third) = redeclaration(&ctx);
    let cov = json!({
        "states": st.states,
        "transitions": st.transitions,
        "failed_transitions": st.failed_transitions,
        "traces_validated_against_impl": st.states,
        "max_depth_after_build": st.max_depth,
        "states_per_depth": st.per_depth,
        "transitions_per_op": st.per_op,
        "capped": st.capped,
        "exhaustive": !st.capped,
        "authorizer_panel": panel.iter().map(|p| p.0).collect::<Vec<_>>(),
        "harness_signed_redeclaration_loads": {"first_party": n_first, "third_party": n_third},
        "digest": st.digest,
        "samples": samples_out.take(),
        "rule": "explicit-state BFS: build(c) for the 8 contents of the alphabet (sharing / shadowing symbols, default symbols and public keys), then append x 8 (+1 secp256r1), append_third_party x 3 (+1 secp256r1), seal, convert (Biscuit <-> UnverifiedBiscuit), reload as ordinary transitions, so every later operation is explored from the in-memory and from the reloaded object; in every state: print(), per-block source / symbols / public keys / version / external key of the in-memory object equal those of the reloaded one; parse(print_block_source(i)) equals what was appended at step i; 8 authorizers give identical results, worlds and query answers; plus harness-signed tokens whose block 1 redeclares a symbol / default symbol / key (first-party: refused by every load path; third-party: accepted and isolated)",
    });
    ctx.finish("model_checking", cov, vec!["keys fixed to ed25519 except one secp256r1 variant per operation at depth <= 2".into()]);
}

//! C19 — the C API mirrors the Rust API and never aborts.
//! E-hist over type-correct C call sequences; the Rust API called with the same inputs is
//! the reference. A panic inside `extern "C"` aborts the process, so sequences run in a
//! journaled child process that the parent restarts after each abort.
use crate::common::*;
use biscuit_auth::builder as b;
use biscuit_auth::builder::Algorithm;
use biscuit_auth::datalog::SymbolTable;
use biscuit_auth::{Authorizer, AuthorizerBuilder, Biscuit, KeyPair};
use biscuit_capi as c;
use rand::rngs::StdRng;
use rand::SeedableRng;
use serde_json::json;
use std::ffi::{CStr, CString};
use std::time::Duration;

#[derive(Clone, Copy, Debug, PartialEq, Eq)]
pub enum Item {
    FactOk,
    FactBad,
    RuleOk,
    CheckOk,
    CheckFailing,
    NonUtf8,
    /// parses, but the builder refuses it (a parameter that nothing binds)
    FactUnbound,
    PolicyAllow,
    PolicyBad,
}

#[derive(Clone, Copy, Debug, PartialEq, Eq)]
pub enum COp {
    KeyNew(bool),
    KeyPublic,
    KeyRoundTrip,
    PubRoundTrip,
    BuilderNew,
    BuilderAdd(Item),
    BuilderMeta,
    BlockMeta,
    Build,
    Sizes,
    Serialize,
    SerializeSealed,
    FromOwn,
    FromTruncated,
    FromOtherRoot,
    Inspect,
    BlockNew,
    BlockAdd(Item),
    Append,
    AbNew,
    AbAdd(Item),
    AbBuild,
    AbBuildUnauth,
    TokAuthorizer,
    Authorize,
    Nulls,
}

fn item_src(i: Item) -> Vec<u8> {
    match i {
        Item::FactOk => b"right(\"file1\", \"read\")".to_vec(),
        Item::FactBad => b"right(\"file1\", ".to_vec(),
        Item::RuleOk => b"can($f) <- right($f, \"read\")".to_vec(),
        Item::CheckOk => b"check if right(\"file1\", \"read\")".to_vec(),
        Item::CheckFailing => b"check if right(\"nothing\", \"write\")".to_vec(),
        Item::NonUtf8 => vec![b'f', b'(', 0xff, 0xfe, b')'],
        Item::FactUnbound => b"operation({op})".to_vec(),
        Item::PolicyAllow => b"allow if true".to_vec(),
        Item::PolicyBad => b"allow if".to_vec(),
    }
}

fn item_is_valid(i: Item) -> bool {
    !matches!(i, Item::FactBad | Item::NonUtf8 | Item::PolicyBad | Item::FactUnbound)
}

const SEED: [u8; 32] = [7u8; 32];
const SEED2: [u8; 32] = [9u8; 32];

fn rust_key(p256: bool, seed: [u8; 32]) -> KeyPair {
    let mut rng: StdRng = SeedableRng::from_seed(seed);
    KeyPair::new_with_rng(if p256 { Algorithm::Secp256r1 } else { Algorithm::Ed25519 }, &mut rng)
}

#[derive(Default)]
pub struct St {
    p256: bool,
    kp: Option<Box<c::KeyPair>>,
    rkp: Option<KeyPair>,
    pk: Option<Box<c::PublicKey>>,
    bb: Option<Box<c::BiscuitBuilder>>,
    rbb: Option<b::BiscuitBuilder>,
    tok: Option<Box<c::Biscuit>>,
    rtok: Option<Biscuit>,
    blk: Option<Box<c::BlockBuilder>>,
    rblk: Option<b::BlockBuilder>,
    ab: Option<Box<c::AuthorizerBuilder>>,
    rab: Option<AuthorizerBuilder>,
    az: Option<Box<c::Authorizer>>,
    raz: Option<Authorizer>,
    adds: usize,
    nulls_done: bool,
    h_bb: Vec<String>,
    h_tok: String,
    h_blk: Vec<String>,
    h_ab: Vec<String>,
    h_az: String,
}

fn kind() -> u32 {
    c::error_kind() as u32
}
const KIND_NONE: u32 = 0;
const KIND_INVALID_ARGUMENT: u32 = 1;

fn msg() -> Option<String> {
    let p = c::error_message();
    if p.is_null() {
        None
    } else {
        Some(unsafe { CStr::from_ptr(p) }.to_string_lossy().to_string())
    }
}

/// expected error kind for a Rust error, by constructing the same mapping through the C API's own
/// classification is not possible from outside: we check the coarse class instead
fn class_of_rust_error(e: &biscuit_auth::error::Token) -> &'static str {
    use biscuit_auth::error::*;
    match e {
        Token::Language(_) => "language",
        Token::Format(_) => "format",
        Token::FailedLogic(_) => "logic",
        Token::RunLimit(_) => "runlimit",
        Token::Execution(_) => "execution",
        _ => "other",
    }
}
fn class_of_kind(k: u32) -> &'static str {
    match k {
        0 => "none",
        1 => "invalid-argument",
        24 => "language",
        20..=23 => "logic",
        25..=27 => "runlimit",
        36 => "execution",
        3..=18 | 29..=35 => "format",
        _ => "other",
    }
}


pub fn enabled(s: &St) -> Vec<COp> {
    let mut v = vec![];
    if s.kp.is_none() {
        v.push(COp::KeyNew(false));
        v.push(COp::KeyNew(true));
    } else {
        if s.pk.is_none() {
            v.push(COp::KeyPublic);
        }
        v.push(COp::KeyRoundTrip);
    }
    if s.pk.is_some() {
        v.push(COp::PubRoundTrip);
    }
    if s.bb.is_none() && s.tok.is_none() {
        v.push(COp::BuilderNew);
    }
    if s.bb.is_some() {
        if s.h_bb.len() < 3 {
            for i in [Item::FactOk, Item::FactBad, Item::FactUnbound, Item::RuleOk, Item::CheckOk, Item::NonUtf8] {
                v.push(COp::BuilderAdd(i));
            }
            v.push(COp::BuilderMeta);
        }
        if s.kp.is_some() && s.tok.is_none() {
            v.push(COp::Build);
        }
    }
    if s.tok.is_some() {
        v.extend([COp::Sizes, COp::Serialize, COp::SerializeSealed, COp::Inspect]);
        if s.pk.is_some() {
            v.extend([COp::FromOwn, COp::FromTruncated, COp::FromOtherRoot]);
        }
        if s.blk.is_some() && s.kp.is_some() && s.h_tok.matches("+blk").count() < 2 {
            v.push(COp::Append);
        }
        if s.az.is_none() {
            v.push(COp::TokAuthorizer);
        }
    }
    if s.blk.is_none() {
        v.push(COp::BlockNew);
    }
    if s.blk.is_some() && s.h_blk.len() < 3 {
        v.push(COp::BlockMeta);
        for i in [Item::FactOk, Item::FactBad, Item::FactUnbound, Item::RuleOk, Item::CheckFailing, Item::NonUtf8] {
            v.push(COp::BlockAdd(i));
        }
    }
    if s.ab.is_none() && s.az.is_none() {
        v.push(COp::AbNew);
    }
    if s.ab.is_some() {
        if s.h_ab.len() < 3 {
            for i in [Item::FactOk, Item::FactBad, Item::FactUnbound, Item::RuleOk, Item::CheckFailing, Item::PolicyAllow, Item::PolicyBad, Item::NonUtf8] {
                v.push(COp::AbAdd(i));
            }
        }
        if s.tok.is_some() {
            v.push(COp::AbBuild);
        }
        v.push(COp::AbBuildUnauth);
    }
    if s.az.is_some() && s.h_az.matches('!').count() < 2 {
        v.push(COp::Authorize);
    }
    if !s.nulls_done {
        v.push(COp::Nulls);
    }
    v
}

/// history bookkeeping for the state fingerprint: which mutating calls each handle has seen.
/// Calls taking a shared reference cannot change a handle (the wrappers have no interior
/// mutability); all they can change is the thread-local error, which is part of the fingerprint.
fn track(s: &mut St, op: COp) {
    match op {
        COp::BuilderNew => s.h_bb = vec!["new".into()],
        COp::BuilderAdd(i) => s.h_bb.push(format!("{i:?}")),
        COp::BuilderMeta => s.h_bb.push("meta".into()),
        COp::BlockMeta => s.h_blk.push("meta".into()),
        COp::Build => {
            s.h_tok = format!("build({})", s.h_bb.join(","));
            s.h_bb.clear();
        }
        COp::BlockNew => s.h_blk = vec!["new".into()],
        COp::BlockAdd(i) => s.h_blk.push(format!("{i:?}")),
        COp::Append => {
            s.h_tok = format!("{}+blk({})", s.h_tok, s.h_blk.join(","));
            s.h_blk.clear();
        }
        COp::AbNew => s.h_ab = vec!["new".into()],
        COp::AbAdd(i) => s.h_ab.push(format!("{i:?}")),
        COp::AbBuild => {
            s.h_az = format!("ab({})+tok({})", s.h_ab.join(","), s.h_tok);
            s.h_ab.clear();
        }
        COp::AbBuildUnauth => {
            s.h_az = format!("ab({})", s.h_ab.join(","));
            s.h_ab.clear();
        }
        COp::TokAuthorizer => s.h_az = format!("tok({})", s.h_tok),
        COp::Authorize => s.h_az.push('!'),
        _ => {}
    }
}

pub fn fingerprint_of(s: &St) -> String {
    format!(
        "k{}{}p{}|bb{}:{}|tok{}:{}|blk{}:{}|ab{}:{}|az{}:{}|n{}|e{}",
        s.kp.is_some() as u8,
        if s.kp.is_some() && s.p256 { "p" } else { "e" },
        s.pk.is_some() as u8,
        s.bb.is_some() as u8,
        s.h_bb.join(","),
        s.tok.is_some() as u8,
        s.h_tok,
        s.blk.is_some() as u8,
        s.h_blk.join(","),
        s.ab.is_some() as u8,
        s.h_ab.join(","),
        s.az.is_some() as u8,
        s.h_az,
        s.nulls_done as u8,
        kind()
    )
}
fn cstr(bytes: &[u8]) -> CString {
    CString::new(bytes.to_vec()).unwrap()
}

/// executes one op on both sides; Err(description) = the C API disagrees with the Rust API
pub fn step(s: &mut St, op: COp) -> Result<(), String> {
    unsafe {
        match op {
            COp::KeyNew(p) => {
                s.p256 = p;
                s.kp = c::key_pair_new(SEED.as_ptr(), 32, if p { c::SignatureAlgorithm::Secp256r1 } else { c::SignatureAlgorithm::Ed25519 });
                s.rkp = Some(rust_key(p, SEED));
                if s.kp.is_none() {
                    return Err("key_pair_new returned null for a 32-byte seed".into());
                }
                // arbitrary 32-byte strings: accepted exactly when the Rust loaders accept them, never an abort
                for fill in [0x00u8, 0x01, 0x7f, 0xff] {
                    for (alg_c, alg_r) in [(c::SignatureAlgorithm::Ed25519, Algorithm::Ed25519), (c::SignatureAlgorithm::Secp256r1, Algorithm::Secp256r1)] {
                        let mut buf = [fill; 32];
                        let alg_c2 = match alg_r {
                            Algorithm::Ed25519 => c::SignatureAlgorithm::Ed25519,
                            Algorithm::Secp256r1 => c::SignatureAlgorithm::Secp256r1,
                        };
                        let k = c::key_pair_deserialize(buf.as_mut_ptr(), alg_c);
                        let rk = biscuit_auth::PrivateKey::from_bytes(&buf, alg_r);
                        if k.is_some() != rk.is_ok() {
                            return Err(format!("key_pair_deserialize({fill:#x} x 32, {alg_r:?}) returned {} but PrivateKey::from_bytes gives {:?}", k.is_some(), rk.as_ref().map(|_| ())));
                        }
                        if k.is_none() && kind() == KIND_NONE {
                            return Err("key_pair_deserialize failed without recording an error".into());
                        }
                        let pkc = c::public_key_deserialize(buf.as_mut_ptr(), alg_c2);
                        let rpk = biscuit_auth::PublicKey::from_bytes(&buf, alg_r);
                        if pkc.is_some() != rpk.is_ok() {
                            return Err(format!("public_key_deserialize({fill:#x} x 32, {alg_r:?}) returned {} but PublicKey::from_bytes gives {:?}", pkc.is_some(), rpk.as_ref().map(|_| ())));
                        }
                    }
                }
                // wrong seed length is refused through the error channel
                let bad = c::key_pair_new(SEED.as_ptr(), 31, c::SignatureAlgorithm::Ed25519);
                if bad.is_some() || kind() != KIND_INVALID_ARGUMENT {
                    return Err(format!("key_pair_new with a 31-byte seed: returned {} error_kind {}", bad.is_some(), kind()));
                }
            }
            COp::KeyPublic => {
                s.pk = c::key_pair_public(s.kp.as_deref());
                if s.pk.is_none() {
                    return Err("key_pair_public returned null".into());
                }
            }
            COp::KeyRoundTrip => {
                let mut buf = [0xAAu8; 40];
                let n = c::key_pair_serialize(s.kp.as_deref(), buf.as_mut_ptr());
                let want = s.rkp.as_ref().unwrap().private().to_bytes().to_vec();
                if n != 32 || buf[..32] != want[..] || buf[32..] != [0xAA; 8] {
                    return Err(format!("key_pair_serialize: wrote {n} bytes, matches Rust private key: {}, guard intact: {}", buf[..32] == want[..], buf[32..] == [0xAA; 8]));
                }
                let back = c::key_pair_deserialize(buf.as_mut_ptr(), if s.p256 { c::SignatureAlgorithm::Secp256r1 } else { c::SignatureAlgorithm::Ed25519 });
                match back {
                    None => return Err("key_pair_deserialize refuses what key_pair_serialize wrote".into()),
                    Some(k) => {
                        let mut b2 = [0u8; 32];
                        c::key_pair_serialize(Some(&k), b2.as_mut_ptr());
                        if b2[..] != want[..] {
                            return Err("key pair round trip changes the key".into());
                        }
                    }
                }
            }
            COp::PubRoundTrip => {
                let want = s.rkp.as_ref().unwrap().public().to_bytes();
                let mut buf = [0xAAu8; 48];
                let n = c::public_key_serialize(s.pk.as_deref(), buf.as_mut_ptr());
                if want.len() == 32 {
                    if n != 32 || buf[..32] != want[..] || buf[32..] != [0xAA; 16] {
                        return Err(format!("public_key_serialize: wrote {n}, equal to Rust: {}", buf[..32] == want[..]));
                    }
                    let back = c::public_key_deserialize(buf.as_mut_ptr(), c::SignatureAlgorithm::Ed25519);
                    if back.is_none() {
                        return Err("public_key_deserialize refuses what public_key_serialize wrote".into());
                    }
                } else {
                    // the API only has room for 32 bytes: a key that does not fit must be an error, not an abort
                    if n != 0 || kind() == KIND_NONE {
                        return Err(format!("public_key_serialize of a {}-byte key announced {n} bytes (buffer is 32 bytes), error_kind {}", want.len(), kind()));
                    }
                    if buf[32..] != [0xAA; 16] {
                        return Err("public_key_serialize wrote past the 32-byte buffer".into());
                    }
                }
            }
            COp::BuilderNew => {
                s.bb = c::biscuit_builder();
                s.rbb = Some(b::BiscuitBuilder::new());
                s.adds = 0;
            }
            COp::BuilderAdd(i) | COp::BlockAdd(i) | COp::AbAdd(i) => {
                s.adds += 1;
                let src = item_src(i);
                let cs = cstr(&src);
                let ok = match (op, i) {
                    (COp::BuilderAdd(_), Item::FactOk | Item::FactBad | Item::NonUtf8 | Item::FactUnbound) => c::biscuit_builder_add_fact(s.bb.as_deref_mut(), cs.as_ptr()),
                    (COp::BuilderAdd(_), Item::RuleOk) => c::biscuit_builder_add_rule(s.bb.as_deref_mut(), cs.as_ptr()),
                    (COp::BuilderAdd(_), _) => c::biscuit_builder_add_check(s.bb.as_deref_mut(), cs.as_ptr()),
                    (COp::BlockAdd(_), Item::FactOk | Item::FactBad | Item::NonUtf8 | Item::FactUnbound) => c::block_builder_add_fact(s.blk.as_deref_mut(), cs.as_ptr()),
                    (COp::BlockAdd(_), Item::RuleOk) => c::block_builder_add_rule(s.blk.as_deref_mut(), cs.as_ptr()),
                    (COp::BlockAdd(_), _) => c::block_builder_add_check(s.blk.as_deref_mut(), cs.as_ptr()),
                    (COp::AbAdd(_), Item::FactOk | Item::FactBad | Item::NonUtf8 | Item::FactUnbound) => c::authorizer_builder_add_fact(s.ab.as_deref_mut(), cs.as_ptr()),
                    (COp::AbAdd(_), Item::PolicyAllow | Item::PolicyBad) => c::authorizer_builder_add_policy(s.ab.as_deref_mut(), cs.as_ptr()),
                    (COp::AbAdd(_), Item::RuleOk) => c::authorizer_builder_add_rule(s.ab.as_deref_mut(), cs.as_ptr()),
                    (_, _) => c::authorizer_builder_add_check(s.ab.as_deref_mut(), cs.as_ptr()),
                };
                if ok != item_is_valid(i) {
                    return Err(format!("{op:?} returned {ok}"));
                }
                if !ok {
                    let want = if i == Item::NonUtf8 { "invalid-argument" } else { "language" };
                    if class_of_kind(kind()) != want {
                        return Err(format!("{op:?} failed but error_kind is {} ({}), expected {want}", kind(), class_of_kind(kind())));
                    }
                    // the message is the Display of the Rust error for the same string
                    let want_msg = match (std::str::from_utf8(&src), i) {
                        (Err(_), _) => "invalid argument".to_string(),
                        (Ok(t), Item::PolicyBad) => AuthorizerBuilder::new().policy(t).err().map(|e| e.to_string()).unwrap_or_default(),
                        (Ok(t), _) => b::BlockBuilder::new().fact(t).err().map(|e| e.to_string()).unwrap_or_default(),
                    };
                    if msg().as_deref() != Some(&want_msg) {
                        return Err(format!("{op:?} failed: error_message() = {:?}, Rust error displays as {want_msg:?}", msg()));
                    }
                } else if let Ok(text) = std::str::from_utf8(&src) {
                    match op {
                        COp::BuilderAdd(_) => {
                            let bq = s.rbb.take().unwrap();
                            s.rbb = Some(match i {
                                Item::FactOk => bq.fact(text).unwrap(),
                                Item::RuleOk => bq.rule(text).unwrap(),
                                _ => bq.check(text).unwrap(),
                            });
                        }
                        COp::BlockAdd(_) => {
                            let bq = s.rblk.take().unwrap();
                            s.rblk = Some(match i {
                                Item::FactOk => bq.fact(text).unwrap(),
                                Item::RuleOk => bq.rule(text).unwrap(),
                                _ => bq.check(text).unwrap(),
                            });
                        }
                        _ => {
                            let bq = s.rab.take().unwrap();
                            s.rab = Some(match i {
                                Item::FactOk => bq.fact(text).unwrap(),
                                Item::RuleOk => bq.rule(text).unwrap(),
                                Item::PolicyAllow => bq.policy(text).unwrap(),
                                _ => bq.check(text).unwrap(),
                            });
                        }
                    }
                }
            }
            COp::BlockMeta => {
                let ctx = cstr(b"block ctx");
                if !c::block_builder_set_context(s.blk.as_deref_mut(), ctx.as_ptr()) {
                    return Err("block_builder_set_context returned false".into());
                }
                let bad = CString::new(vec![0xffu8, 0xfe]).unwrap();
                if c::block_builder_set_context(s.blk.as_deref_mut(), bad.as_ptr()) || kind() != KIND_INVALID_ARGUMENT {
                    return Err(format!("block_builder_set_context with a non-UTF-8 string: error_kind {}", kind()));
                }
                let bq = s.rblk.take().unwrap();
                s.rblk = Some(bq.context("block ctx".to_string()));
            }
            COp::BuilderMeta => {
                let ctx = cstr(b"ctx");
                if !c::biscuit_builder_set_context(s.bb.as_deref_mut(), ctx.as_ptr()) || !c::biscuit_builder_set_root_key_id(s.bb.as_deref_mut(), 7) {
                    return Err("set_context / set_root_key_id returned false".into());
                }
                let bq = s.rbb.take().unwrap();
                s.rbb = Some(bq.context("ctx".to_string()).root_key_id(7));
            }
            COp::Build => {
                s.tok = c::biscuit_builder_build(s.bb.as_deref(), s.kp.as_deref(), SEED2.as_ptr(), 32);
                let mut rng: StdRng = SeedableRng::from_seed(SEED2);
                let rt = s.rbb.clone().unwrap().build_with_rng(s.rkp.as_ref().unwrap(), SymbolTable::default(), &mut rng);
                if s.tok.is_some() != rt.is_ok() {
                    return Err(format!("biscuit_builder_build returned {} but the Rust build gives {:?}", s.tok.is_some(), rt.as_ref().map(|_| ())));
                }
                s.rtok = rt.ok();
                s.bb = None;
                s.rbb = None;
            }
            COp::Sizes => {
                let rt = s.rtok.as_ref().unwrap();
                let n = c::biscuit_serialized_size(s.tok.as_deref());
                if n != rt.to_vec().unwrap().len() {
                    return Err(format!("biscuit_serialized_size = {n}, Rust to_vec().len() = {}", rt.to_vec().unwrap().len()));
                }
                let ns = c::biscuit_sealed_size(s.tok.as_deref());
                let want = rt.seal().unwrap().to_vec().unwrap().len();
                if ns != want {
                    return Err(format!("biscuit_sealed_size = {ns}, Rust seal().to_vec().len() = {want}"));
                }
            }
            COp::Serialize => {
                let want = s.rtok.as_ref().unwrap().to_vec().unwrap();
                let n = c::biscuit_serialized_size(s.tok.as_deref());
                let mut buf = vec![0xAAu8; n + 16];
                let w = c::biscuit_serialize(s.tok.as_deref(), buf.as_mut_ptr());
                if w != n || buf[..n] != want[..] || buf[n..].iter().any(|x| *x != 0xAA) {
                    return Err(format!("biscuit_serialize: announced {n}, wrote {w}, equal to Rust bytes: {}, guard intact: {}", buf[..n.min(want.len())] == want[..n.min(want.len())], buf[n..].iter().all(|x| *x == 0xAA)));
                }
            }
            COp::SerializeSealed => {
                let n = c::biscuit_sealed_size(s.tok.as_deref());
                let want = s.rtok.as_ref().unwrap().seal().unwrap().to_vec().unwrap();
                // the caller allocates what the API announces (plus guard bytes we own)
                let mut buf = vec![0xAAu8; n.max(want.len()) + 64];
                let w = c::biscuit_serialize_sealed(s.tok.as_deref(), buf.as_mut_ptr());
                if w != n {
                    return Err(format!("biscuit_serialize_sealed wrote {w} bytes but biscuit_sealed_size announced {n}"));
                }
                if buf[..w] != want[..] {
                    return Err("biscuit_serialize_sealed bytes differ from Rust seal().to_vec()".into());
                }
                if buf[n..].iter().any(|x| *x != 0xAA) {
                    return Err("biscuit_serialize_sealed wrote past the announced size".into());
                }
            }
            COp::FromOwn | COp::FromTruncated | COp::FromOtherRoot => {
                let mut bytes = s.rtok.as_ref().unwrap().to_vec().unwrap();
                let other = c::key_pair_public(c::key_pair_new(SEED2.as_ptr(), 32, c::SignatureAlgorithm::Ed25519).as_deref());
                let rootpk = if op == COp::FromOtherRoot { other.as_deref() } else { s.pk.as_deref() };
                if op == COp::FromTruncated {
                    bytes.truncate(bytes.len() / 2);
                }
                let t = c::biscuit_from(bytes.as_ptr(), bytes.len(), rootpk);
                let rroot = if op == COp::FromOtherRoot { rust_key(false, SEED2).public() } else { s.rkp.as_ref().unwrap().public() };
                let rt = Biscuit::from(&bytes, rroot);
                if t.is_some() != rt.is_ok() {
                    return Err(format!("biscuit_from returned {} but Rust gives {:?}", t.is_some(), rt.as_ref().map(|_| ())));
                }
                if let Err(e) = &rt {
                    // the failure must be reported through the error channel
                    let want = class_of_rust_error(e);
                    if class_of_kind(kind()) != want {
                        return Err(format!("biscuit_from failed ({e:?}) but error_kind() is {} ({}), expected class {want}", kind(), class_of_kind(kind())));
                    }
                    if msg().as_deref() != Some(&e.to_string()) {
                        return Err(format!("biscuit_from failed: error_message() = {:?}, Rust error displays as {:?}", msg(), e.to_string()));
                    }
                }
            }
            COp::Inspect => {
                let rt = s.rtok.as_ref().unwrap();
                let n = c::biscuit_block_count(s.tok.as_deref());
                if n != rt.block_count() {
                    return Err(format!("block_count {n} vs {}", rt.block_count()));
                }
                let take = |p: *const std::os::raw::c_char| -> Option<String> {
                    if p.is_null() {
                        None
                    } else {
                        let s = CStr::from_ptr(p).to_string_lossy().to_string();
                        c::string_free(p as *mut _);
                        Some(s)
                    }
                };
                if take(c::biscuit_print(s.tok.as_deref())) != Some(rt.print()) {
                    return Err("biscuit_print differs from Rust print()".into());
                }
                for i in 0..(n as u32 + 2) {
                    let ctx = take(c::biscuit_block_context(s.tok.as_deref(), i));
                    let want = rt.context().get(i as usize).cloned().flatten();
                    if ctx != want {
                        return Err(format!("block_context({i}) = {ctx:?}, Rust {want:?}"));
                    }
                    let src = take(c::biscuit_print_block_source(s.tok.as_deref(), i));
                    let want = rt.print_block_source(i as usize).ok();
                    if src != want {
                        return Err(format!("print_block_source({i}) = {src:?}, Rust {want:?}"));
                    }
                    if want.is_none() && class_of_kind(kind()) != "format" {
                        return Err(format!("print_block_source({i}) failed but error_kind is {}", kind()));
                    }
                }
            }
            COp::BlockNew => {
                s.blk = Some(c::create_block());
                s.rblk = Some(b::BlockBuilder::new());
                s.adds = 0;
            }
            COp::Append => {
                let t = c::biscuit_append_block(s.tok.as_deref(), s.blk.as_deref(), s.kp.as_deref());
                let rt = s.rtok.as_ref().unwrap().append_with_keypair(s.rkp.as_ref().unwrap(), s.rblk.clone().unwrap());
                if t.is_some() != rt.is_ok() {
                    return Err(format!("biscuit_append_block returned {} but Rust gives {:?}", t.is_some(), rt.as_ref().map(|_| ())));
                }
                if let (Some(t), Ok(rt)) = (t, rt) {
                    let n = c::biscuit_serialized_size(Some(&t));
                    let mut buf = vec![0u8; n];
                    c::biscuit_serialize(Some(&t), buf.as_mut_ptr());
                    if buf != rt.to_vec().unwrap() {
                        return Err("appended token bytes differ from Rust append_with_keypair".into());
                    }
                    s.tok = Some(t);
                    s.rtok = Some(rt);
                }
                s.blk = None;
                s.rblk = None;
            }
            COp::AbNew => {
                s.ab = c::authorizer_builder();
                s.rab = Some(AuthorizerBuilder::new());
                s.adds = 0;
            }
            COp::AbBuild | COp::AbBuildUnauth | COp::TokAuthorizer => {
                let (a, ra) = match op {
                    COp::AbBuild => (c::authorizer_builder_build(s.ab.take(), s.tok.as_ref().unwrap()), s.rab.take().unwrap().build(s.rtok.as_ref().unwrap())),
                    COp::AbBuildUnauth => (c::authorizer_builder_build_unauthenticated(s.ab.take()), s.rab.take().unwrap().build_unauthenticated()),
                    _ => (c::biscuit_authorizer(s.tok.as_deref()), s.rtok.as_ref().unwrap().authorizer()),
                };
                if a.is_some() != ra.is_ok() {
                    return Err(format!("{op:?} returned {} but Rust gives {:?}", a.is_some(), ra.as_ref().map(|_| ())));
                }
                s.az = a;
                s.raz = ra.ok();
            }
            COp::Authorize => {
                // the C API cannot set limits: the default 1 ms budget can time out under load, retry
                for attempt in 0..5 {
                    let mut ra = s.raz.clone().unwrap();
                    let rr = ra.authorize();
                    let ok = c::authorizer_authorize(s.az.as_deref_mut());
                    let timed_out = |e: &biscuit_auth::error::Token| matches!(e, biscuit_auth::error::Token::RunLimit(_));
                    if matches!(&rr, Err(e) if timed_out(e)) || (!ok && class_of_kind(kind()) == "runlimit") {
                        if attempt < 4 {
                            continue;
                        }
                        return Ok(());
                    }
                    if ok != rr.is_ok() {
                        return Err(format!("authorizer_authorize returned {ok} but Rust gives {:?}", rr.as_ref().map_err(|e| e.to_string())));
                    }
                    if let Err(e) = &rr {
                        use biscuit_auth::error::*;
                        if class_of_kind(kind()) != class_of_rust_error(e) {
                            return Err(format!("authorize failed with {e:?} but error_kind() = {}", kind()));
                        }
                        let checks: Vec<FailedCheck> = match e {
                            Token::FailedLogic(Logic::Unauthorized { checks, .. }) | Token::FailedLogic(Logic::NoMatchingPolicy { checks }) => checks.clone(),
                            _ => vec![],
                        };
                        if c::error_check_count() != checks.len() as u64 {
                            return Err(format!("error_check_count = {}, Rust has {} failed checks", c::error_check_count(), checks.len()));
                        }
                        for (i, ch) in checks.iter().enumerate() {
                            let (cid, bid, isa, rule) = match ch {
                                FailedCheck::Block(bc) => (bc.check_id as u64, bc.block_id as u64, false, bc.rule.clone()),
                                FailedCheck::Authorizer(ac) => (ac.check_id as u64, u64::MAX, true, ac.rule.clone()),
                            };
                            let r = c::error_check_rule(i as u64);
                            let rule_c = if r.is_null() { None } else { Some(CStr::from_ptr(r).to_string_lossy().to_string()) };
                            if c::error_check_id(i as u64) != cid || c::error_check_block_id(i as u64) != bid || c::error_check_is_authorizer(i as u64) != isa || rule_c.as_deref() != Some(&rule) {
                                return Err(format!("failed check {i}: C gives (id {}, block {}, authorizer {}, rule {:?}), Rust ({cid}, {bid}, {isa}, {rule:?})", c::error_check_id(i as u64), c::error_check_block_id(i as u64), c::error_check_is_authorizer(i as u64), rule_c));
                            }
                        }
                        let n = checks.len() as u64;
                        if c::error_check_id(n) != u64::MAX || c::error_check_block_id(n) != u64::MAX || c::error_check_is_authorizer(n) || !c::error_check_rule(n).is_null() {
                            return Err("error_check_* with an out-of-range index does not return the sentinel".into());
                        }
                        if msg().as_deref() != Some(&e.to_string()) {
                            return Err(format!("error_message() = {:?}, Rust error displays as {:?}", msg(), e.to_string()));
                        }
                    }
                    break;
                }
                let p = c::authorizer_print(s.az.as_deref_mut());
                if p.is_null() {
                    return Err("authorizer_print returned null".into());
                }
                c::string_free(p);
            }
            COp::Nulls => {
                s.nulls_done = true;
                let x = cstr(b"f(1)");
                let mut buf = [0u8; 64];
                let results: Vec<(&str, bool)> = vec![
                    ("key_pair_public", c::key_pair_public(None).is_none()),
                    ("key_pair_serialize", c::key_pair_serialize(None, buf.as_mut_ptr()) == 0),
                    ("public_key_serialize", c::public_key_serialize(None, buf.as_mut_ptr()) == 0),
                    ("biscuit_builder_set_context", !c::biscuit_builder_set_context(None, x.as_ptr())),
                    ("biscuit_builder_set_root_key_id", !c::biscuit_builder_set_root_key_id(None, 1)),
                    ("biscuit_builder_add_fact", !c::biscuit_builder_add_fact(None, x.as_ptr())),
                    ("biscuit_builder_add_rule", !c::biscuit_builder_add_rule(None, x.as_ptr())),
                    ("biscuit_builder_add_check", !c::biscuit_builder_add_check(None, x.as_ptr())),
                    ("biscuit_builder_build", c::biscuit_builder_build(None, None, SEED.as_ptr(), 32).is_none()),
                    ("biscuit_from", c::biscuit_from(buf.as_ptr(), 8, None).is_none()),
                    ("biscuit_serialized_size", c::biscuit_serialized_size(None) == 0),
                    ("biscuit_sealed_size", c::biscuit_sealed_size(None) == 0),
                    ("biscuit_serialize", c::biscuit_serialize(None, buf.as_mut_ptr()) == 0),
                    ("biscuit_serialize_sealed", c::biscuit_serialize_sealed(None, buf.as_mut_ptr()) == 0),
                    ("biscuit_block_count", c::biscuit_block_count(None) == 0),
                    ("biscuit_block_context", c::biscuit_block_context(None, 0).is_null()),
                    ("biscuit_append_block", c::biscuit_append_block(None, None, None).is_none()),
                    ("biscuit_authorizer", c::biscuit_authorizer(None).is_none()),
                    ("block_builder_set_context", !c::block_builder_set_context(None, x.as_ptr())),
                    ("block_builder_add_fact", !c::block_builder_add_fact(None, x.as_ptr())),
                    ("block_builder_add_rule", !c::block_builder_add_rule(None, x.as_ptr())),
                    ("block_builder_add_check", !c::block_builder_add_check(None, x.as_ptr())),
                    ("authorizer_builder_add_fact", !c::authorizer_builder_add_fact(None, x.as_ptr())),
                    ("authorizer_builder_add_rule", !c::authorizer_builder_add_rule(None, x.as_ptr())),
                    ("authorizer_builder_add_check", !c::authorizer_builder_add_check(None, x.as_ptr())),
                    ("authorizer_builder_add_policy", !c::authorizer_builder_add_policy(None, x.as_ptr())),
                    ("authorizer_authorize", !c::authorizer_authorize(None)),
                    ("authorizer_print", c::authorizer_print(None).is_null()),
                    ("biscuit_print", c::biscuit_print(None).is_null()),
                    ("biscuit_print_block_source", c::biscuit_print_block_source(None, 0).is_null()),
                ];
                for (name, ok) in results {
                    if !ok {
                        return Err(format!("{name}(NULL) does not return its error value"));
                    }
                }
                if kind() != KIND_INVALID_ARGUMENT {
                    return Err(format!("after calls with NULL handles error_kind() = {}", kind()));
                }
                c::key_pair_free(None);
                c::public_key_free(None);
                c::biscuit_builder_free(None);
                c::biscuit_free(None);
                c::block_builder_free(None);
                c::authorizer_builder_free(None);
                c::authorizer_free(None);
                c::string_free(std::ptr::null_mut());
            }
        }
    }
    Ok(())
}


pub fn all_ops() -> Vec<COp> {
    use COp::*;
    use Item::*;
    let mut v = vec![KeyNew(false), KeyNew(true), KeyPublic, KeyRoundTrip, PubRoundTrip, BuilderNew, BuilderMeta, BlockMeta, Build, Sizes, Serialize, SerializeSealed, FromOwn, FromTruncated, FromOtherRoot, Inspect, BlockNew, Append, AbNew, AbBuild, AbBuildUnauth, TokAuthorizer, Authorize, Nulls];
    for i in [FactOk, FactBad, FactUnbound, RuleOk, CheckOk, CheckFailing, NonUtf8, PolicyAllow, PolicyBad] {
        v.push(BuilderAdd(i));
        v.push(BlockAdd(i));
        v.push(AbAdd(i));
    }
    v
}

fn path_str(p: &[COp]) -> String {
    p.iter().map(|o| format!("{o:?}")).collect::<Vec<_>>().join(">")
}

fn parse_path(s: &str) -> Vec<COp> {
    let ops = all_ops();
    s.split('>').filter(|x| !x.is_empty()).map(|x| *ops.iter().find(|o| format!("{o:?}") == x).unwrap_or_else(|| panic!("unknown op {x}"))).collect()
}

/// child: reads call sequences from stdin (one per line), runs each on fresh handles and journals
/// `B <path>` before the last call, `E <path> ok <fingerprint> <enabled ops>` or `E <path> DIFF <why>` after it
pub fn child_main() {
    use std::io::BufRead;
    let stdin = std::io::stdin();
    for line in stdin.lock().lines() {
        let line = line.unwrap();
        let path = parse_path(line.trim());
        let mut st = St::default();
        let n = path.len();
        if n == 0 {
            println!("E\t\tok\t{}\t{}", fingerprint_of(&st), path_str(&enabled(&st)));
            continue;
        }
        for (i, op) in path.iter().enumerate() {
            let last = i + 1 == n;
            if last {
                println!("B\t{}", path_str(&path));
            }
            track(&mut st, *op);
            match step(&mut st, *op) {
                Ok(()) => {
                    if last {
                        println!("E\t{}\tok\t{}\t{}", path_str(&path), fingerprint_of(&st), path_str(&enabled(&st)));
                    }
                }
                Err(e) => {
                    println!("E\t{}\tDIFF\t{}\t{}", path_str(&path), if last { "last" } else { "prefix" }, e.replace(['\n', '\t'], " "));
                    break;
                }
            }
        }
    }
    println!("DONE");
}

pub enum Outcome {
    Ok { fp: String, enabled: Vec<String> },
    Diff(String),
    Abort(String),
}

/// runs a chunk of call sequences in child processes; an abort is attributed to the pending call,
/// and the rest of the chunk continues in a new child
fn run_chunk(paths: &[String]) -> Vec<(String, Outcome)> {
    use std::io::Write;
    let exe = std::env::current_exe().unwrap();
    let mut out = vec![];
    let mut start = 0usize;
    while start < paths.len() {
        let mut ch = std::process::Command::new(&exe).arg("C19-child").stdin(std::process::Stdio::piped()).stdout(std::process::Stdio::piped()).stderr(std::process::Stdio::null()).spawn().expect("spawn child");
        {
            let mut si = ch.stdin.take().unwrap();
            let body = paths[start..].join("\n") + "\n";
            std::thread::spawn(move || {
                let _ = si.write_all(body.as_bytes());
            });
        }
        let res = ch.wait_with_output().expect("child output");
        let text = String::from_utf8_lossy(&res.stdout).to_string();
        let mut pending: Option<String> = None;
        let mut done = false;
        let mut finished = 0usize;
        for l in text.lines() {
            let parts: Vec<&str> = l.split('\t').collect();
            match parts[0] {
                "B" => pending = Some(parts[1].to_string()),
                "E" => {
                    pending = None;
                    finished += 1;
                    let path = parts[1].to_string();
                    if parts[2] == "ok" {
                        out.push((path, Outcome::Ok { fp: parts[3].to_string(), enabled: parts.get(4).unwrap_or(&"").split('>').filter(|x| !x.is_empty()).map(|x| x.to_string()).collect() }));
                    } else {
                        out.push((path, Outcome::Diff(format!("[{}] {}", parts[3], parts.get(4).unwrap_or(&"")))));
                    }
                }
                "DONE" => done = true,
                _ => {}
            }
        }
        if done {
            break;
        }
        match pending {
            Some(p) => {
                out.push((p, Outcome::Abort(format!("{:?}", res.status))));
                finished += 1;
            }
            None => {
                eprintln!("MACHINERY: C19 child died without a pending call: {:?}", res.status);
                std::process::exit(2);
            }
        }
        start += finished;
    }
    out
}

fn preludes() -> Vec<Vec<COp>> {
    use COp::*;
    let mut v = vec![vec![]];
    for a in [false, true] {
        let p1 = vec![KeyNew(a), KeyPublic, BuilderNew, BuilderAdd(Item::FactOk), Build];
        let mut p2 = p1.clone();
        p2.extend([BlockNew, BlockAdd(Item::CheckFailing), Append]);
        let mut p3 = p2.clone();
        p3.extend([AbNew, AbAdd(Item::PolicyAllow)]);
        let mut p4 = p1.clone();
        p4.extend([AbNew, AbAdd(Item::CheckFailing), AbAdd(Item::PolicyAllow)]);
        v.extend([p1, p2, p3, p4]);
    }
    v
}

pub fn run(tier: Tier) {
    use rayon::prelude::*;
    let ctx = Ctx::new("C19", tier);
    let depth = tier.pick(5, 7);
    let started = std::time::Instant::now();
    let cap = Duration::from_secs(tier.pick(900, 6 * 3600));
    let mut seen: std::collections::HashSet<String> = Default::default();
    let mut transitions = 0usize;
    let mut aborts = 0usize;
    let mut diffs = 0usize;
    let mut per_level = vec![];
    let mut samples = vec![];
    // level 0: the preludes (every prefix of a prelude is run as its own sequence first, so an abort inside
    // a prelude is attributed to the right call)
    let mut level: Vec<String> = vec![];
    let mut prelude_prefixes: Vec<String> = vec![];
    for p in preludes() {
        for n in 0..=p.len() {
            let s = path_str(&p[..n]);
            if !prelude_prefixes.contains(&s) {
                prelude_prefixes.push(s);
            }
        }
    }
    prelude_prefixes.sort_by_key(|s| s.matches('>').count() + (!s.is_empty()) as usize);
    let prelude_full: Vec<String> = preludes().iter().map(|p| path_str(p)).collect();
    let mut bad_prefixes: Vec<String> = vec![];
    let report = |ctx: &Ctx, path: &str, o: &Outcome, aborts: &mut usize, diffs: &mut usize| {
        let last = path.rsplit('>').next().unwrap_or(path).to_string();
        let alg = if path.contains("KeyNew(true)") { "secp256r1" } else if path.contains("KeyNew(false)") { "ed25519" } else { "no-key" };
        match o {
            Outcome::Abort(status) => {
                *aborts += 1;
                // which earlier call on the same handle failed (the usual cause)
                let family = if last.starts_with("Builder") || last == "Build" { "Builder" } else if last.starts_with("Block") || last == "Append" { "Block" } else if last.starts_with("Ab") { "Ab" } else { "-" };
                let after_failed_add = path.split('>').any(|o| o.starts_with(family) && (o.contains("Bad)") || o.contains("NonUtf8)"))) && family != "-";
                let algpart = if matches!(last.as_str(), "PubRoundTrip" | "KeyRoundTrip" | "Sizes" | "SerializeSealed" | "Serialize") { format!("/{alg}") } else { String::new() };
                ctx.violation_lazy(format!("C19/abort/{last}{algpart}{}", if after_failed_add { "/after-a-failed-add" } else { "" }), || json!({"call_sequence": path, "child_exit": status}));
            }
            Outcome::Diff(why) => {
                *diffs += 1;
                let class: String = why.split(']').nth(1).unwrap_or(why).split(|c: char| c.is_ascii_digit() || c == '(').next().unwrap_or("").trim().chars().take(60).collect();
                ctx.violation_lazy(format!("C19/differs-from-rust/{last}/{class}"), || json!({"call_sequence": path, "difference": why}));
            }
            Outcome::Ok { .. } => {}
        }
    };
    for chunk_level in 0..=10usize {
        let todo: Vec<String> = prelude_prefixes.iter().filter(|s| s.matches('>').count() + (!s.is_empty()) as usize == chunk_level).filter(|s| !bad_prefixes.iter().any(|b| s.starts_with(b.as_str()))).cloned().collect();
        if todo.is_empty() {
            continue;
        }
        for (path, o) in run_chunk(&todo) {
            transitions += 1;
            report(&ctx, &path, &o, &mut aborts, &mut diffs);
            match o {
                Outcome::Ok { fp, enabled } => {
                    seen.insert(fp);
                    if prelude_full.contains(&path) {
                        for op in enabled {
                            level.push(if path.is_empty() { op } else { format!("{path}>{op}") });
                        }
                    }
                }
                _ => bad_prefixes.push(path),
            }
        }
    }
    per_level.push(json!({"depth_after_prelude": 0, "sequences": prelude_prefixes.len(), "states": seen.len()}));
    for d in 1..=depth {
        if started.elapsed() > cap {
            eprintln!("MACHINERY: C19 exploration exceeded its wall cap at depth {d}");
            std::process::exit(2);
        }
        level.sort();
        level.dedup();
        let chunks: Vec<Vec<String>> = level.chunks(200).map(|c| c.to_vec()).collect();
        let results: Vec<(String, Outcome)> = chunks.par_iter().flat_map_iter(|c| run_chunk(c)).collect();
        let mut next = vec![];
        let mut new_states = 0usize;
        let mut results = results;
        results.sort_by(|a, b| a.0.cmp(&b.0));
        for (path, o) in results {
            transitions += 1;
            report(&ctx, &path, &o, &mut aborts, &mut diffs);
            if let Outcome::Ok { fp, enabled } = o {
                if seen.insert(fp) {
                    new_states += 1;
                    if samples.len() < 8 && new_states % 211 == 1 {
                        samples.push(json!(path));
                    }
                    if d < depth {
                        for op in enabled {
                            next.push(format!("{path}>{op}"));
                        }
                    }
                }
            }
        }
        per_level.push(json!({"depth_after_prelude": d, "sequences": level.len(), "new_states": new_states}));
        level = next;
        if level.is_empty() {
            break;
        }
    }

    let cov = json!({
        "states": seen.len(),
        "transitions": transitions,
        "traces_validated_against_impl": transitions,
        "sequences_that_aborted_the_process": aborts,
        "sequences_with_a_difference": diffs,
        "max_sequence_length_after_prelude": depth, "levels": per_level,
        "preludes": preludes().iter().map(|p| path_str(p)).collect::<Vec<_>>(),
        "exhaustive": true,
        "samples": samples,
        "rule": "breadth-first search over type-correct C call sequences: from the empty state and from 8 prelude states (key of either algorithm + token; + second block with a failing check; + authorizer builder with policies) every enabled call is tried up to the depth bound; states are merged on a fingerprint made of which handles exist, the list of mutating calls each handle has received (including failed ones), and the current error_kind(); calls taking a shared reference cannot change a handle, so merged states have the same futures. Alphabet: key_pair_new(ed25519|secp256r1) (+ wrong seed length), key_pair_public, key pair / public key serialize+deserialize into guarded buffers, biscuit_builder, add_fact / add_rule / add_check with valid, unparsable and non-UTF-8 strings, set_context + set_root_key_id, build, serialized_size + sealed_size, serialize / serialize_sealed into buffers of the announced size with guard bytes, biscuit_from (own bytes, truncated, other root), block_count + block_context(i) + print + print_block_source(i) for i in 0..n+1, create_block + add_*, append_block, authorizer_builder + add_* incl. policies, build / build_unauthenticated, biscuit_authorizer, authorize + error_kind / error_message / error_check_*(i in 0..=count), every function with NULL handles. Each call is mirrored by the Rust API with the same inputs (same seeds give the same keys) and return values, bytes written, guard bytes and the error channel are compared. Sequences run in child processes whose journal attributes an abort to the call that caused it.",
    });
    ctx.finish("model_checking", cov, vec!["authorize() runs under the C API's fixed default limits (1 ms): run-limit outcomes are retried and then ignored".into(), "non-optional reference parameters (authorizer_builder_build's token) are never passed NULL".into()]);
}

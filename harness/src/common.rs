//! Shared machinery: tiers, evidence, violations, known findings, panic capture.
use serde_json::{json, Value};
use sha2::{Digest, Sha256};
use std::collections::BTreeMap;
use std::panic::{catch_unwind, AssertUnwindSafe};
use std::sync::Mutex;
use std::time::Instant;

#[derive(Clone, Copy, PartialEq, Eq, Debug)]
pub enum Tier {
    Quick,
    Thorough,
}

impl Tier {
    pub fn name(&self) -> &'static str {
        match self {
            Tier::Quick => "quick",
            Tier::Thorough => "thorough",
        }
    }
    pub fn pick<T>(&self, quick: T, thorough: T) -> T {
        match self {
            Tier::Quick => quick,
            Tier::Thorough => thorough,
        }
    }
}

pub fn verif_root() -> String {
    std::env::var("VERIF_ROOT").unwrap_or_else(|_| "/verif".to_string())
}

/// where evidence and replay artefacts are written (default: the verif root; scratch
/// runs against a copy of the repository write elsewhere)
pub fn out_root() -> String {
    std::env::var("VERIF_OUT").unwrap_or_else(|_| verif_root())
}

/// the repository under test (sources are linked at build time; this is for data files)
pub fn repo_root() -> String {
    std::env::var("VERIF_REPO").unwrap_or_else(|_| "/repo".to_string())
}

#[derive(Clone, Debug)]
pub struct Known {
    pub status: String,
    pub property: String,
    pub key: String,
    pub what: String,
}

pub fn load_known() -> Vec<Known> {
    let path = format!("{}/known_findings.json", verif_root());
    let data = match std::fs::read_to_string(&path) {
        Ok(d) => d,
        Err(_) => return vec![],
    };
    let v: Value = serde_json::from_str(&data).unwrap_or_else(|e| {
        eprintln!("MACHINERY: cannot parse {}: {}", path, e);
        std::process::exit(2);
    });
    v.as_array()
        .cloned()
        .unwrap_or_default()
        .iter()
        .map(|e| Known {
            status: e["status"].as_str().unwrap_or("").to_string(),
            property: e["property"].as_str().unwrap_or("").to_string(),
            key: e["key"].as_str().unwrap_or("").to_string(),
            what: e["what"].as_str().unwrap_or("").to_string(),
        })
        .collect()
}

pub struct Ctx {
    pub prop: String,
    pub tier: Tier,
    pub seed: u64,
    pub start: Instant,
    violations: Mutex<BTreeMap<String, (Value, u64)>>,
    observations: Mutex<BTreeMap<String, u64>>,
    pub only_key: Option<String>,
}

impl Ctx {
    pub fn new(prop: &str, tier: Tier) -> Ctx {
        let seed = std::env::var("VERIF_SEED")
            .ok()
            .and_then(|s| s.parse::<u64>().ok())
            .unwrap_or(0);
        Ctx {
            prop: prop.to_string(),
            tier,
            seed,
            start: Instant::now(),
            violations: Mutex::new(BTreeMap::new()),
            observations: Mutex::new(BTreeMap::new()),
            only_key: std::env::var("VERIF_REPLAY_KEY").ok(),
        }
    }

    /// record a violation; `key` identifies the specific failing input class
    /// (stable across runs), `detail` is the replayable case
    pub fn violation(&self, key: impl Into<String>, detail: Value) {
        let key = key.into();
        let mut v = self.violations.lock().unwrap();
        let e = v.entry(key).or_insert((detail, 0));
        e.1 += 1;
    }

    /// like `violation`, but the detail is only built for the first case of a key
    pub fn violation_lazy(&self, key: impl Into<String>, detail: impl FnOnce() -> Value) {
        let key = key.into();
        {
            let mut v = self.violations.lock().unwrap();
            if let Some(e) = v.get_mut(&key) {
                e.1 += 1;
                return;
            }
        }
        let d = detail();
        let mut v = self.violations.lock().unwrap();
        let e = v.entry(key).or_insert((d, 0));
        e.1 += 1;
    }

    /// something noteworthy outside the property's statement
    pub fn observe(&self, what: impl Into<String>) {
        *self
            .observations
            .lock()
            .unwrap()
            .entry(what.into())
            .or_insert(0) += 1;
    }

    pub fn violation_count(&self) -> usize {
        self.violations.lock().unwrap().len()
    }

    /// writes evidence, prints verdict lines, exits
    pub fn finish(self, level: &str, mut coverage: Value, assumptions: Vec<String>) -> ! {
        let wall = self.start.elapsed().as_secs_f64();
        let known = load_known();
        let violations = self.violations.into_inner().unwrap();
        let observations = self.observations.into_inner().unwrap();
        let root = out_root();
        // replay artefacts belong to one run
        if self.only_key.is_none() {
            let _ = std::fs::remove_dir_all(format!("{}/replays/{}", root, self.prop));
        }
        let mut new_violations = 0;
        let mut known_hits = vec![];
        let mut lines = vec![];
        for (key, (detail, count)) in violations.iter() {
            let k = known
                .iter()
                .find(|k| k.status == "known" && k.property == self.prop && &k.key == key);
            match k {
                Some(k) => {
                    known_hits.push(key.clone());
                    lines.push(format!(
                        "KNOWN-FINDING: property={} {} [key={} cases={}]",
                        self.prop, k.what, key, count
                    ));
                }
                None => {
                    new_violations += 1;
                    let mut h = Sha256::new();
                    h.update(key.as_bytes());
                    let name = hex::encode(&h.finalize()[..8]);
                    let dir = format!("{}/replays/{}", root, self.prop);
                    let _ = std::fs::create_dir_all(&dir);
                    let path = format!("{}/{}.json", dir, name);
                    let body = json!({
                        "property": self.prop,
                        "tier": self.tier.name(),
                        "key": key,
                        "cases": count,
                        "detail": detail,
                    });
                    let _ = std::fs::write(&path, serde_json::to_string_pretty(&body).unwrap());
                    lines.push(format!(
                        "VIOLATION property={} replay={} key={} cases={}",
                        self.prop, path, key, count
                    ));
                }
            }
        }
        if let Some(obj) = coverage.as_object_mut() {
            if !observations.is_empty() {
                obj.insert("observations".into(), json!(observations));
            }
            obj.insert("known_findings_reproduced".into(), json!(known_hits));
        }
        let ev = json!({
            "property_id": self.prop,
            "tier": self.tier.name(),
            "seed": self.seed,
            "level": level,
            "coverage": coverage,
            "assumptions": assumptions,
            "wall_s": (wall * 1000.0).round() / 1000.0,
            "violations": new_violations,
        });
        let evdir = format!("{}/evidence", root);
        let _ = std::fs::create_dir_all(&evdir);
        if self.only_key.is_none() {
            if let Err(e) = std::fs::write(
                format!("{}/{}.json", evdir, self.prop),
                serde_json::to_string_pretty(&ev).unwrap(),
            ) {
                eprintln!("MACHINERY: cannot write evidence: {}", e);
                std::process::exit(2);
            }
        }
        for l in &lines {
            println!("{}", l);
        }
        println!(
            "{} {} tier={} wall={:.1}s new_violations={} known_findings={}",
            if new_violations == 0 { "PASS" } else { "FAIL" },
            self.prop,
            self.tier.name(),
            wall,
            new_violations,
            known_hits.len()
        );
        std::process::exit(if new_violations == 0 { 0 } else { 1 });
    }
}

pub static LAST_PANIC_GLOBAL: Mutex<Option<String>> = Mutex::new(None);

thread_local! {
    static LAST_PANIC: std::cell::RefCell<Option<String>> = std::cell::RefCell::new(None);
}

/// install a panic hook that records message + location instead of printing
pub fn quiet_panics() {
    std::panic::set_hook(Box::new(|info| {
        let loc = info
            .location()
            .map(|l| {
                let f = l.file();
                // keep repo-relative path
                let f = f.rsplit("/repo/").next().unwrap_or(f);
                // a scratch copy of the repository lives elsewhere: cut at the crate directory
                let f = ["biscuit-auth/", "biscuit-parser/", "biscuit-quote/", "biscuit-capi/"].iter().filter_map(|c| f.find(c).map(|i| &f[i..])).max_by_key(|x| x.len()).unwrap_or(f);
                format!("{}:{}", f, l.line())
            })
            .unwrap_or_default();
        let msg = if let Some(s) = info.payload().downcast_ref::<&str>() {
            s.to_string()
        } else if let Some(s) = info.payload().downcast_ref::<String>() {
            s.clone()
        } else {
            "?".to_string()
        };
        if let Ok(mut g) = LAST_PANIC_GLOBAL.lock() {
            *g = Some(format!("{} @ {}", msg, loc));
        }
        LAST_PANIC.with(|p| *p.borrow_mut() = Some(format!("{} @ {}", msg, loc)));
    }));
}

/// run f, mapping a panic to Err(message @ file:line)
pub fn guard<T>(f: impl FnOnce() -> T) -> Result<T, String> {
    match catch_unwind(AssertUnwindSafe(f)) {
        Ok(v) => Ok(v),
        Err(_) => Err(LAST_PANIC
            .with(|p| p.borrow_mut().take())
            .unwrap_or_else(|| "panic".to_string())),
    }
}

/// panic site for keys: source file + head of the message (no line number, so that an unrelated edit of the
/// file does not turn a known finding into a new key)
pub fn panic_site(msg: &str) -> String {
    let (m, loc) = match msg.rsplit_once(" @ ") {
        Some((m, l)) => (m, l),
        None => ("", msg),
    };
    let file = loc.rsplit_once(':').map(|(f, _)| f).unwrap_or(loc);
    let mut head = String::new();
    for c in m.split(':').next().unwrap_or("").chars() {
        let c = if c.is_ascii_alphanumeric() { c } else { '-' };
        if c == '-' && head.ends_with('-') {
            continue;
        }
        head.push(c);
    }
    let head: String = head.trim_matches('-').chars().take(48).collect();
    format!("{file}#{head}")
}

pub fn sha_hex(data: &[u8]) -> String {
    let mut h = Sha256::new();
    h.update(data);
    hex::encode(&h.finalize()[..8])
}

pub fn fingerprint(data: &[u8]) -> [u8; 16] {
    let mut h = Sha256::new();
    h.update(data);
    let d = h.finalize();
    let mut out = [0u8; 16];
    out.copy_from_slice(&d[..16]);
    out
}

/// all permutations of 0..n (n small)
pub fn permutations(n: usize) -> Vec<Vec<usize>> {
    fn rec(cur: &mut Vec<usize>, used: &mut Vec<bool>, n: usize, out: &mut Vec<Vec<usize>>) {
        if cur.len() == n {
            out.push(cur.clone());
            return;
        }
        for i in 0..n {
            if !used[i] {
                used[i] = true;
                cur.push(i);
                rec(cur, used, n, out);
                cur.pop();
                used[i] = false;
            }
        }
    }
    let mut out = vec![];
    rec(&mut vec![], &mut vec![false; n], n, &mut out);
    out
}

/// keep up to `n` samples
pub struct Samples {
    pub v: Mutex<Vec<Value>>,
    pub n: usize,
}
impl Samples {
    pub fn new(n: usize) -> Self {
        Samples {
            v: Mutex::new(vec![]),
            n,
        }
    }
    pub fn push(&self, f: impl FnOnce() -> Value) {
        let mut v = self.v.lock().unwrap();
        if v.len() < self.n {
            v.push(f());
        }
    }
    pub fn take(self) -> Vec<Value> {
        self.v.into_inner().unwrap()
    }
}

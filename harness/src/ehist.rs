//! E-hist: explicit-state breadth-first search over API operation histories.
//! Transitions call the real API; states are de-duplicated by a fingerprint of
//! every in-memory field (Debug rendering) plus the serialized bytes.
use crate::common::fingerprint;
use crate::tok::{apply, hist_root, Op, Tok};
use rayon::prelude::*;
use std::collections::{BTreeMap, HashSet};
use std::sync::Mutex;

pub struct Stats {
    pub states: usize,
    pub transitions: usize,
    pub failed_transitions: usize,
    pub max_depth: usize,
    pub per_op: BTreeMap<String, usize>,
    pub per_depth: Vec<usize>,
    pub capped: bool,
    pub digest: String,
}

pub fn state_fp(t: &Tok) -> [u8; 16] {
    let mut data = t.kind().as_bytes().to_vec();
    data.extend(t.to_vec().unwrap_or_default());
    data.extend(t.debug().as_bytes());
    fingerprint(&data)
}

fn op_class(op: &Op) -> &'static str {
    match op {
        Op::Build { .. } => "build",
        Op::Append { .. } => "append",
        Op::AppendTp { .. } => "append_third_party",
        Op::Seal => "seal",
        Op::Convert => "convert",
        Op::Reload => "reload",
    }
}

/// `initial`: build ops. `next_ops(hist, tok)`: enabled transitions of a state.
/// `on_state` is evaluated in every distinct state, `on_transition` on every
/// successful transition, `on_fail` on every transition the API refused.
pub fn bfs(
    initial: Vec<Op>,
    max_depth: usize,
    max_states: usize,
    next_ops: &(dyn Fn(&[Op], &Tok) -> Vec<Op> + Sync),
    on_state: &(dyn Fn(&[Op], &Tok) + Sync),
    on_transition: &(dyn Fn(&[Op], &Tok, &Op, &Tok) + Sync),
    on_fail: &(dyn Fn(&[Op], &Tok, &Op, &str) + Sync),
) -> Stats {
    let mut seen: HashSet<[u8; 16]> = HashSet::new();
    let mut stats = Stats {
        states: 0,
        transitions: 0,
        failed_transitions: 0,
        max_depth: 0,
        per_op: BTreeMap::new(),
        per_depth: vec![],
        capped: false,
        digest: String::new(),
    };
    let mut digest_acc: Vec<u8> = vec![];
    // level 0
    let mut frontier: Vec<(Vec<Op>, Tok)> = vec![];
    for op in initial {
        let r = hist_root(std::slice::from_ref(&op));
        match apply(None, &op, 0, r) {
            Ok(t) => {
                stats.transitions += 1;
                *stats.per_op.entry(op_class(&op).into()).or_insert(0) += 1;
                let fp = state_fp(&t);
                if seen.insert(fp) {
                    frontier.push((vec![op], t));
                }
            }
            Err(e) => {
                panic!("initial build failed: {} : {}", op.show(), e);
            }
        }
    }
    let mut depth = 0;
    loop {
        stats.per_depth.push(frontier.len());
        stats.states += frontier.len();
        stats.max_depth = depth;
        frontier.par_iter().for_each(|(h, t)| on_state(h, t));
        for (_, t) in &frontier {
            digest_acc.extend_from_slice(&state_fp(t));
        }
        digest_acc = fingerprint(&digest_acc).to_vec();
        if depth == max_depth {
            break;
        }
        let fails = Mutex::new(0usize);
        let per_op: Mutex<BTreeMap<String, usize>> = Mutex::new(BTreeMap::new());
        let mut candidates: Vec<([u8; 16], Vec<Op>, Tok)> = frontier
            .par_iter()
            .flat_map_iter(|(h, t)| {
                let r = hist_root(h);
                let mut out = vec![];
                for op in next_ops(h, t) {
                    match apply(Some(t), &op, h.len(), r) {
                        Ok(child) => {
                            on_transition(h, t, &op, &child);
                            *per_op
                                .lock()
                                .unwrap()
                                .entry(op_class(&op).into())
                                .or_insert(0) += 1;
                            let mut nh = h.clone();
                            nh.push(op);
                            out.push((state_fp(&child), nh, child));
                        }
                        Err(e) => {
                            *fails.lock().unwrap() += 1;
                            on_fail(h, t, &op, &e);
                        }
                    }
                }
                out
            })
            .collect();
        stats.transitions += candidates.len();
        stats.failed_transitions += fails.into_inner().unwrap();
        for (k, v) in per_op.into_inner().unwrap() {
            *stats.per_op.entry(k).or_insert(0) += v;
        }
        candidates.sort_by(|a, b| (a.0, &a.1).cmp(&(b.0, &b.1)));
        let mut next = vec![];
        for (fp, h, t) in candidates {
            if seen.insert(fp) {
                next.push((h, t));
            }
        }
        if next.is_empty() {
            break;
        }
        if stats.states + next.len() > max_states {
            stats.capped = true;
            next.truncate(max_states.saturating_sub(stats.states));
            if next.is_empty() {
                break;
            }
        }
        frontier = next;
        depth += 1;
    }
    stats.digest = hex::encode(&digest_acc[..8.min(digest_acc.len())]);
    stats
}

//! C13 — authorizer snapshots and saved policies restore the same authorizer.
use crate::common::*;
use crate::ehist;
use crate::tok::*;
use biscuit_auth::builder as b;
use biscuit_auth::builder::Term;
use biscuit_auth::{Authorizer, AuthorizerBuilder, AuthorizerLimits, Biscuit};
use rayon::prelude::*;
use serde_json::json;
use std::collections::HashMap;
use std::sync::atomic::{AtomicUsize, Ordering};
use std::sync::Mutex;
use std::time::Duration;

pub struct Panel {
    pub name: &'static str,
    pub code: String,
    pub params: Vec<(&'static str, Term)>,
    pub limits: AuthorizerLimits,
    pub scope_k1: bool,
}

fn lim(i: u64, f: u64) -> AuthorizerLimits {
    AuthorizerLimits { max_iterations: i, max_facts: f, max_time: Duration::from_secs(3600) }
}

pub fn panel() -> Vec<Panel> {
    let k1 = pk_str(&k1().public());
    let k2 = pk_str(&k2().public());
    let big = || lim(1_000_000, 1_000_000);
    vec![
        Panel { name: "allow-all", code: "allow if true;".into(), params: vec![], limits: big(), scope_k1: false },
        Panel {
            name: "strings-and-rules",
            code: r#"s("file1"); s("authz only"); seen($x) <- s($x); seen2($x) <- right($x, "read"); check if seen("file1"); allow if seen2("file1"); deny if true;"#.into(),
            params: vec![],
            limits: big(),
            scope_k1: false,
        },
        Panel {
            name: "all-term-types",
            code: r#"v(1, "a", 2020-01-01T00:00:00Z, hex:01ff, true, {1, 2}, null, [1, "x"], {"k": 1, 2: null}); w($a) <- v($a, $b, $c, $d, $e, $f, $g, $h, $i); check if v($a, $b, $c, $d, $e, $f, $g, $h, $i), $f.contains(1), $h.get(1) == "x"; allow if true;"#.into(),
            params: vec![],
            limits: big(),
            scope_k1: false,
        },
        Panel {
            name: "scopes-both-algorithms",
            code: format!("tpv($x) <- tp($x) trusting {k1}; tpv($x) <- tp($x) trusting {k2}; prev($x) <- s($x) trusting authority, {k1}; check if tpv($x) trusting {k1}, {k2} or true; allow if tp($x) trusting {k2}; allow if true trusting authority;"),
            params: vec![],
            limits: big(),
            scope_k1: false,
        },
        // features that raise the Datalog version appear in the policies only: the authorizer block itself is plain 3.0
        Panel { name: "policy-only-scopes", code: format!("s(\"authz\"); seen($x) <- s($x); check if seen(\"authz\"); deny if tp(\"never\") trusting {k1}; allow if seen($x) trusting authority, {k2}; deny if true;"), params: vec![], limits: big(), scope_k1: false },
        Panel { name: "policy-only-3.3-features", code: r#"s("authz"); deny if {"a": 1}.get("a") == 2; allow if s($x), [1, null].length() == 2, $x.type() == "string", true || false; deny if true;"#.into(), params: vec![], limits: big(), scope_k1: false },
        Panel { name: "authorizer-scope", code: format!("got($x) <- tp($x); got($x) <- s($x); allow if got($x); deny if true;"), params: vec![], limits: big(), scope_k1: true },
        Panel {
            name: "parameters",
            code: r#"p({i}, {s}, {set}); check if p($a, $b, $c), $a == {i}; allow if true;"#.into(),
            params: vec![("i", b::int(-7)), ("s", b::string("a \"quoted\" string")), ("set", Term::Set([b::int(1), b::int(2)].into_iter().collect()))],
            limits: big(),
            scope_k1: false,
        },
        Panel { name: "closures-and-laziness", code: r#"l([1, 2, 3]); check if l($l), $l.all($e -> $e > 0) && (true || 1 / 0 > 0); check if {"a": 1}.any($kv -> $kv.get(1) == 1); allow if true;"#.into(), params: vec![], limits: big(), scope_k1: false },
        Panel { name: "expression-error", code: r#"n(0); bad($x) <- n($x), 10 / $x > 0; allow if true;"#.into(), params: vec![], limits: big(), scope_k1: false },
        Panel { name: "check-error", code: r#"n(0); n(1); check if n($x), 10 / $x > 100; allow if true;"#.into(), params: vec![], limits: big(), scope_k1: false },
        Panel { name: "iteration-limit", code: "r(0); nx(0,1); nx(1,2); nx(2,3); nx(3,4); r($y) <- r($x), nx($x,$y); allow if r(4);".into(), params: vec![], limits: lim(2, 1_000_000), scope_k1: false },
        Panel { name: "fact-limit", code: "f(0); f(1); f(2); g($x, $y) <- f($x), f($y); allow if true;".into(), params: vec![], limits: lim(1_000_000, 6), scope_k1: false },
        Panel { name: "failing-checks", code: r#"check if nothing(1); check all s($x), $x == "zzz"; reject if s("file1"); deny if s("other"); allow if true;"#.into(), params: vec![], limits: big(), scope_k1: false },
    ]
}

pub fn builder_of(p: &Panel) -> AuthorizerBuilder {
    let mut params = HashMap::new();
    for (k, v) in &p.params {
        params.insert(k.to_string(), v.clone());
    }
    let mut ab = AuthorizerBuilder::new().code_with_params(&p.code, params, HashMap::new()).unwrap_or_else(|e| panic!("panel {}: {e:?}", p.name)).limits(p.limits.clone());
    if p.scope_k1 {
        ab = ab.scope(b::Scope::PublicKey(k1().public()));
    }
    ab
}

const QUERIES: [&str; 8] = ["q($x) <- s($x)", "q($x) <- tp($x)", "q($x) <- seen($x)", "q($x, $y) <- right($x, $y)", "q($x) <- tpv($x)", "q($x) <- got($x)", "q($x) <- r($x)", "q($x) <- n($x)"];

/// everything observable about an authorizer, in a canonical textual form
pub fn view(a: &Authorizer, label: &str) -> Result<serde_json::Value, String> {
    let r = guard(|| {
        let mut a = a.clone();
        let world_before = a.print_world();
        let dump = a.dump_code();
        let dump_sorted = {
            let mut l: Vec<&str> = dump.lines().collect();
            l.sort();
            l.join("\n")
        };
        let limits = format!("{:?}", a.limits());
        let iterations = a.iterations();
        let had_time = a.execution_time().is_some();
        let auth = crate::c04::real_decision(&a.authorize()).map(|d| format!("{d:?}")).unwrap_or_else(|e| format!("Err({e})"));
        let mut queries = vec![];
        for q in QUERIES {
            let r: Result<Vec<b::Fact>, _> = a.query_all(q);
            queries.push(match r {
                Ok(v) => {
                    let mut s: Vec<String> = v.iter().map(|f| f.to_string()).collect();
                    s.sort();
                    format!("{s:?}")
                }
                Err(e) => format!("Err({e:?})"),
            });
        }
        let world_after = a.print_world();
        json!({"world_before": world_before, "dump_code_sorted": dump_sorted, "limits": limits, "iterations": iterations, "execution_time_recorded": had_time,
            "authorize": auth, "queries": queries, "world_after": world_after, "iterations_after": a.iterations()})
    });
    r.map_err(|p| format!("PANIC in view({label}): {p}"))
}

pub fn run(tier: Tier) {
    let ctx = Ctx::new("C13", tier);
    // tokens: E-hist states over contents with their own symbols / keys
    let contents: &'static [&'static str] = &["b1", "b3", "b4", "b8"];
    let tp: &'static [&'static str] = &["t0", "t2"];
    let depth = tier.pick(3, 4);
    let tokens: Mutex<Vec<(Vec<Op>, Biscuit)>> = Mutex::new(vec![]);
    let initial: Vec<Op> = ["b0", "b1", "b3"].iter().map(|c| Op::Build { root: Alg::Ed, next: Alg::Ed, content: c, kid: None }).collect();
    let next = move |_h: &[Op], t: &Tok| {
        let mut v = vec![];
        if !t.is_sealed() {
            for c in contents {
                v.push(Op::Append { next: Alg::Ed, content: c });
            }
            for c in tp {
                v.push(Op::AppendTp { ext: Alg::Ed, next: Alg::Ed, content: c });
                v.push(Op::AppendTp { ext: Alg::P256, next: Alg::P256, content: c });
            }
        }
        v
    };
    let st = ehist::bfs(
        initial,
        depth,
        100_000,
        &next,
        &|h, t| {
            if let Tok::V(bq) = t {
                tokens.lock().unwrap().push((h.to_vec(), bq.clone()));
            }
        },
        &|_, _, _, _| {},
        &|_, _, _, _| {},
    );
    let mut tokens = tokens.into_inner().unwrap();
    tokens.sort_by(|a, b| a.0.cmp(&b.0));
    let panels = panel();
    let evals = AtomicUsize::new(0);
    let restores = AtomicUsize::new(0);
    let samples_out = Samples::new(5);
    let phases_seen: Mutex<std::collections::BTreeMap<String, usize>> = Mutex::new(Default::default());

    // (1) builder snapshots and saved policies (no token)
    for p in &panels {
        let ab = builder_of(p);
        evals.fetch_add(1, Ordering::Relaxed);
        let orig = ab.clone().build_unauthenticated().map_err(|e| format!("{e:?}"));
        let forms: Vec<(&str, Result<AuthorizerBuilder, String>)> = vec![
            ("builder-struct", guard(|| ab.snapshot().map_err(|e| format!("{e:?}")).and_then(|s| AuthorizerBuilder::from_snapshot(s).map_err(|e| format!("{e:?}")))).unwrap_or_else(|p| Err(format!("PANIC {p}")))),
            ("builder-raw", guard(|| ab.to_raw_snapshot().map_err(|e| format!("{e:?}")).and_then(|s| AuthorizerBuilder::from_raw_snapshot(&s).map_err(|e| format!("{e:?}")))).unwrap_or_else(|p| Err(format!("PANIC {p}")))),
            ("builder-base64", guard(|| ab.to_base64_snapshot().map_err(|e| format!("{e:?}")).and_then(|s| AuthorizerBuilder::from_base64_snapshot(&s).map_err(|e| format!("{e:?}")))).unwrap_or_else(|p| Err(format!("PANIC {p}")))),
        ];
        for (form, r) in forms {
            restores.fetch_add(1, Ordering::Relaxed);
            match (r, &orig) {
                (Err(e), _) => ctx.violation_lazy(format!("C13/restore-failed/{form}/{}", p.name), || json!({"panel": p.name, "code": p.code, "error": e})),
                (Ok(rb), Ok(o)) => {
                    if rb.dump_code() != ab.dump_code() {
                        ctx.violation_lazy(format!("C13/builder-differs/{form}/{}", p.name), || json!({"panel": p.name, "original": ab.dump_code(), "restored": rb.dump_code()}));
                    }
                    match rb.build_unauthenticated() {
                        Ok(ra) => {
                            let (v1, v2) = (view(o, "orig"), view(&ra, "restored"));
                            if v1 != v2 {
                                ctx.violation_lazy(format!("C13/restored-builder-behaves-differently/{form}/{}", p.name), || json!({"panel": p.name, "original": v1, "restored": v2}));
                            }
                        }
                        Err(e) => ctx.violation_lazy(format!("C13/restored-builder-does-not-build/{form}/{}", p.name), || json!({"error": format!("{e:?}")})),
                    }
                }
                (Ok(_), Err(_)) => {}
            }
        }
        // save() -> serialize -> Authorizer::from
        if let Ok(o) = &orig {
            restores.fetch_add(1, Ordering::Relaxed);
            let r = guard(|| {
                let saved = o.save().map_err(|e| format!("save: {e:?}"))?;
                let bytes = saved.serialize().map_err(|e| format!("serialize: {e:?}"))?;
                Authorizer::from(&bytes).map_err(|e| format!("from: {e:?}"))
            });
            match r {
                Err(pn) => ctx.violation_lazy(format!("C13/panic/{}", panic_site(&pn)), || json!({"panel": p.name, "panic": pn})),
                Ok(Err(e)) => {
                    // one defect, one key: the message has no key table, so any `trusting <public key>` scope is lost
                    let class = if e.contains("UnknownExternalKey") && (p.code.contains("trusting ed25519/") || p.code.contains("secp256r1/")) { "public-key-scope".to_string() } else { p.name.to_string() };
                    ctx.violation_lazy(format!("C13/saved-policies-restore-failed/{class}"), || json!({"panel": p.name, "code": p.code, "error": e}))
                }
                Ok(Ok(ra)) => {
                    // policies do not carry limits or scopes: compare the code
                    let mut l1: Vec<String> = o.dump_code().lines().map(|s| s.to_string()).collect();
                    let mut l2: Vec<String> = ra.dump_code().lines().map(|s| s.to_string()).collect();
                    l1.sort();
                    l2.sort();
                    if l1 != l2 {
                        ctx.violation_lazy(format!("C13/saved-policies-differ/{}", p.name), || json!({"panel": p.name, "original": l1, "restored": l2}));
                    }
                }
            }
        }
    }

    // (2) authorizers with tokens, every phase, every form
    let work: Vec<(usize, usize)> = (0..tokens.len()).flat_map(|t| (0..panels.len()).map(move |p| (t, p))).collect();
    work.par_iter().for_each(|(ti, pi)| {
        let (hist, token) = &tokens[*ti];
        let p = &panels[*pi];
        let ab = builder_of(p);
        for phase in ["built", "after-run", "after-authorize", "after-query"] {
            evals.fetch_add(1, Ordering::Relaxed);
            let built = guard(|| {
                let mut a = ab.clone().build(token).map_err(|e| format!("build: {e:?}"))?;
                let outcome = match phase {
                    "after-run" => a.run().map(|_| ()).map_err(|e| format!("{e:?}")),
                    "after-authorize" => a.authorize().map(|_| ()).map_err(|e| format!("{e:?}")),
                    "after-query" => a.query_all::<_, b::Fact, _>("q($x) <- s($x)").map(|_| ()).map_err(|e| format!("{e:?}")),
                    _ => Ok(()),
                };
                Ok::<_, String>((a, outcome))
            });
            let (a, outcome) = match built {
                Ok(Ok(x)) => x,
                Ok(Err(e)) => {
                    ctx.violation_lazy(format!("C13/build-refused/{}", p.name), || json!({"history": show_hist(hist), "panel": p.name, "error": e}));
                    continue;
                }
                Err(pn) => {
                    ctx.violation_lazy(format!("C13/panic/{}", panic_site(&pn)), || json!({"history": show_hist(hist), "panel": p.name, "phase": phase, "panic": pn}));
                    continue;
                }
            };
            let phase_full = format!("{phase}{}", match &outcome { Ok(()) => "".to_string(), Err(e) => format!("(failed: {})", e.split('(').next().unwrap_or("").chars().take(24).collect::<String>()) });
            *phases_seen.lock().unwrap().entry(phase_full.clone()).or_insert(0) += 1;
            let orig_view = view(&a, "original");
            let has_tp = hist.iter().any(|o| matches!(o, Op::AppendTp { .. }));
            let class = format!("{}/{}/{}", p.name, phase_full, if has_tp { "third-party" } else { "first-party-only" });
            let forms: Vec<(&str, Result<Result<Authorizer, String>, String>)> = vec![
                ("struct", guard(|| a.snapshot().map_err(|e| format!("snapshot: {e:?}")).and_then(|s| Authorizer::from_snapshot(s).map_err(|e| format!("restore: {e:?}"))))),
                ("raw", guard(|| a.to_raw_snapshot().map_err(|e| format!("snapshot: {e:?}")).and_then(|s| Authorizer::from_raw_snapshot(&s).map_err(|e| format!("restore: {e:?}"))))),
                ("base64", guard(|| a.to_base64_snapshot().map_err(|e| format!("snapshot: {e:?}")).and_then(|s| Authorizer::from_base64_snapshot(&s).map_err(|e| format!("restore: {e:?}"))))),
            ];
            for (form, r) in forms {
                restores.fetch_add(1, Ordering::Relaxed);
                let case = || json!({"history": show_hist(hist), "panel": p.name, "authorizer_code": p.code, "phase": phase_full, "form": form, "token_b64": token.to_base64().unwrap_or_default()});
                match r {
                    Err(pn) => ctx.violation_lazy(format!("C13/panic/{}", panic_site(&pn)), || json!({"case": case(), "panic": pn})),
                    Ok(Err(e)) => ctx.violation_lazy(format!("C13/restore-failed/{form}/{class}/{}", e.chars().take(60).collect::<String>()), || json!({"case": case(), "error": e})),
                    Ok(Ok(ra)) => {
                        let rv = view(&ra, "restored");
                        if rv != orig_view {
                            // name the first field that differs
                            let field = match (&orig_view, &rv) {
                                (Ok(a), Ok(b)) => a.as_object().unwrap().keys().find(|k| a[*k] != b[*k]).cloned().unwrap_or_default(),
                                _ => "panic".into(),
                            };
                            ctx.violation_lazy(format!("C13/restored-differs/{field}/{form}/{class}"), || json!({"case": case(), "original": orig_view, "restored": rv}));
                        } else if (*ti + *pi) % 41 == 0 && form == "raw" {
                            samples_out.push(|| json!({"case": case(), "view": rv}));
                        }
                        // idempotence: the restored object snapshots to something that restores again
                        if form == "raw" {
                            let again = guard(|| ra.to_raw_snapshot().ok().and_then(|s| Authorizer::from_raw_snapshot(&s).ok()).map(|x| view(&x, "again")));
                            match again {
                                Ok(Some(v2)) if v2 == rv => {}
                                other => ctx.violation_lazy(format!("C13/second-round-trip-differs/{class}"), || json!({"case": case(), "second": format!("{other:?}").chars().take(600).collect::<String>()})),
                            }
                        }
                    }
                }
            }
        }
    });

    let ev = evals.load(Ordering::Relaxed);
    let cov = json!({
        "states": ev,
        "transitions": restores.load(Ordering::Relaxed),
        "traces_validated_against_impl": restores.load(Ordering::Relaxed),
        "tokens (E-hist states)": tokens.len(),
        "token_search": {"states": st.states, "transitions": st.transitions, "depth_after_build": st.max_depth},
        "authorizer_panel": panels.iter().map(|p| p.name).collect::<Vec<_>>(),
        "phases_observed": phases_seen.into_inner().unwrap(),
        "forms": ["snapshot struct", "raw bytes", "base64", "builder struct/raw/base64", "save -> AuthorizerPolicies -> Authorizer::from"],
        "exhaustive": true,
        "samples": samples_out.take(),
        "rule": "every (token, authorizer, phase, form): tokens = all E-hist states over blocks sharing / shadowing symbols and keys incl. third-party blocks with their own tables (both key algorithms) and first-party blocks whose scopes name keys of later third-party blocks; authorizers = a panel covering strings, all term types, scopes with both key algorithms, authorizer-level scope, bound parameters, closures, expression errors, iteration / fact limits, failing checks; phases = built, after run, after authorize, after query (each possibly failed); oracle: restore succeeds and the restored object has the same world per origin, rules, checks, policies (print_world, dump_code), limits, iterations, authorize result and query_all results for 8 queries; a second snapshot round trip is a fixpoint",
    });
    ctx.finish(
        "model_checking",
        cov,
        vec!["extern functions are not part of snapshots".into(), "the virtual clock is not used: limits on time are non-binding (1 h)".into()],
    );
}

#![allow(dead_code, unused_imports, unused_variables)]
mod common;
mod tok;
mod ehist;
mod c02;
mod c01;
mod rexpr;
mod rdl;
mod samples;
mod c04;
mod c05;
mod c06;
mod c11;
mod c10;
mod c03;
mod c13;
mod c12;
mod c15;
mod c08;
mod c07;
mod c16;
mod c14;
mod c20;
mod c17;
mod c09;
mod c19;
mod c18;

use common::Tier;

fn main() {
    let args: Vec<String> = std::env::args().collect();
    if args.len() < 2 {
        eprintln!("usage: vcheck <Cxx> [quick|thorough]");
        std::process::exit(2);
    }
    let tier = match args.get(2).map(|s| s.as_str()).or(std::env::var("VERIF_TIER").ok().as_deref()) {
        Some("thorough") => Tier::Thorough,
        _ => Tier::Quick,
    };
    common::quiet_panics();
    let r = std::panic::catch_unwind(|| match args[1].as_str() {
        "C02" => c02::run(tier),
        "C01" => c01::run(tier),
        "C04" => c04::run(tier),
        "C05" => c05::run(tier),
        "C06" => c06::run(tier),
        "C11" => c11::run(tier),
        "C10" => c10::run(tier),
        "C03" => c03::run(tier),
        "C13" => c13::run(tier),
        "C12" => c12::run(tier),
        "C15" => c15::run(tier),
        "C08" => c08::run(tier),
        "C07" => c07::run(tier),
        "C16" => c16::run(tier),
        "C14" => c14::run(tier),
        "C20" => c20::run(tier),
        "C17" => c17::run(tier),
        "C09" => c09::run(tier),
        "C19" => c19::run(tier),
        "C18" => c18::run(tier),
        "C19-child" => c19::child_main(),
        "C09-text" => c09::text_child(args[2].parse().unwrap(), args[3].parse().unwrap()),
        "C09-probe" => c09::probe_child(&args[2], args[3].parse().unwrap()),
        "C09-load" => c09::load_child(&args[2]),
        "parse" => {
            use std::convert::TryFrom;
            let t = &args[2];
            println!("fact:   {:?}", biscuit_auth::builder::Fact::try_from(t.as_str()).map(|f| f.to_string()));
            println!("rule:   {:?}", biscuit_auth::builder::Rule::try_from(t.as_str()).map(|f| f.to_string()));
            println!("check:  {:?}", biscuit_auth::builder::Check::try_from(t.as_str()).map(|f| format!("{f} {:?}", f)));
            println!("block:  {:?}", biscuit_auth::builder::BlockBuilder::new().code(t).map(|f| f.to_string()));
        }
        "bind" => { let r = samples::bind_or_die(); println!("rsig ok {} rejected {} ; rdl validations {} exec-error {} skipped {:?}", r.rsig_accepted, r.rsig_rejected, r.rdl_validations, r.rdl_exec_error_validations, r.rdl_skipped); }
        other => {
            eprintln!("unknown property {other}");
            std::process::exit(2);
        }
    });
    if r.is_err() {
        eprintln!("MACHINERY: engine panic outside a guarded call: {:?}", common::LAST_PANIC_GLOBAL.lock().ok().and_then(|g| g.clone()));
        std::process::exit(2);
    }
}

//! C15 — revocation identifiers are stable, unique and not malleable.
use crate::c01::{self, build_corpus, judge_with, orig_of, sig_algebra, signed_content, token_class, Signed, Verdict};
use crate::c02::{initial_states, std_next_ops};
use crate::common::*;
use crate::ehist;
use crate::tok::*;
use biscuit_auth::builder::{BiscuitBuilder, BlockBuilder};
use biscuit_auth::datalog::SymbolTable;
use biscuit_auth::format::schema;
use biscuit_auth::{Biscuit, UnverifiedBiscuit};
use prost::Message;
use rayon::prelude::*;
use serde_json::json;
use std::collections::BTreeSet;
use std::sync::atomic::{AtomicUsize, Ordering};

fn ids_hex(v: &[Vec<u8>]) -> Vec<String> {
    v.iter().map(hex::encode).collect()
}

/// protobuf-level re-encodings of a wire token that keep every signed byte
fn proto_reencodings(bytes: &[u8], t: &schema::Biscuit) -> Vec<(&'static str, Vec<u8>)> {
    let mut out = vec![];
    // unknown field appended at top level (field 15, varint)
    let mut v = bytes.to_vec();
    v.extend_from_slice(&[0x78, 0x01]);
    out.push(("unknown-top-level-field", v));
    // root key id hint set / changed
    let mut m = t.clone();
    m.root_key_id = Some(m.root_key_id.map(|k| k + 1).unwrap_or(3));
    out.push(("root-key-id-hint", m.encode_to_vec()));
    // version field written explicitly as 0 when absent
    let mut m = t.clone();
    let mut changed = false;
    if m.authority.version.is_none() {
        m.authority.version = Some(0);
        changed = true;
    }
    for b in m.blocks.iter_mut() {
        if b.version.is_none() {
            b.version = Some(0);
            changed = true;
        }
    }
    if changed {
        out.push(("explicit-version-0", m.encode_to_vec()));
    }
    // proof repeated (last one wins in protobuf)
    let mut v = bytes.to_vec();
    let mut p = vec![];
    t.proof.encode(&mut p).unwrap();
    v.push(0x22);
    prost::encoding::encode_varint(p.len() as u64, &mut v);
    v.extend_from_slice(&p);
    out.push(("proof-field-repeated", v));
    out
}

pub fn run(tier: Tier) {
    let ctx = Ctx::new("C15", tier);
    // ---------------- stability along all histories
    let depth = tier.pick(3, 4);
    let contents: &'static [&'static str] = &["b0", "b5"];
    let tp: &'static [&'static str] = &["t1"];
    let next = std_next_ops(contents, tp);
    let trans = AtomicUsize::new(0);
    let states = AtomicUsize::new(0);
    let st = ehist::bfs(
        initial_states(contents, &[None]),
        depth,
        2_000_000,
        &next,
        &|h, t| {
            states.fetch_add(1, Ordering::Relaxed);
            let ids = t.revocation_identifiers();
            let set: BTreeSet<&Vec<u8>> = ids.iter().collect();
            if set.len() != ids.len() {
                ctx.violation_lazy(format!("C15/duplicate-identifier-within-token/{}", token_class(h)), || json!({"history": show_hist(h), "ids": ids_hex(&ids)}));
            }
            if ids.len() != t.block_count() {
                ctx.violation_lazy("C15/identifier-count".to_string(), || json!({"history": show_hist(h), "ids": ids.len(), "blocks": t.block_count()}));
            }
            // every load path presents the same identifiers
            if let Ok(bytes) = t.to_vec() {
                let rootk = root(hist_root(h)).public();
                let loads: Vec<(&str, Option<Vec<Vec<u8>>>)> = vec![
                    ("Biscuit::from", Biscuit::from(&bytes, rootk).ok().map(|b| b.revocation_identifiers())),
                    ("UnverifiedBiscuit::from", UnverifiedBiscuit::from(&bytes).ok().map(|b| b.revocation_identifiers())),
                    ("UnverifiedBiscuit::from+verify", UnverifiedBiscuit::from(&bytes).ok().and_then(|u| u.verify(rootk).ok()).map(|b| b.revocation_identifiers())),
                ];
                for (name, l) in loads {
                    if l.as_ref() != Some(&ids) {
                        ctx.violation_lazy(format!("C15/identifiers-differ-after-load/{name}"), || json!({"history": show_hist(h), "in_memory": ids_hex(&ids), "loaded": l.as_ref().map(|x| ids_hex(x))}));
                    }
                }
            }
        },
        &|h, parent, op, child| {
            trans.fetch_add(1, Ordering::Relaxed);
            let (p, c) = (parent.revocation_identifiers(), child.revocation_identifiers());
            let grows = matches!(op, Op::Append { .. } | Op::AppendTp { .. });
            let ok = if grows { c.len() == p.len() + 1 && c[..p.len()] == p[..] } else { c == p };
            if !ok {
                let opname = op.show().split('(').next().unwrap_or("").to_string();
                ctx.violation_lazy(format!("C15/existing-identifiers-changed/{opname}/{}", parent.kind()), || json!({"history": show_hist(h), "op": op.show(), "before": ids_hex(&p), "after": ids_hex(&c)}));
            }
        },
        &|_, _, _, _| {},
    );

    // ---------------- uniqueness (decidable part): distinct fresh keys give distinct identifiers
    let mut uniq_pairs = 0usize;
    for ra in ALGS {
        for na in ALGS {
            for content in ["b0", "b5"] {
                let mut seen: Vec<(u8, Vec<u8>, Vec<u8>)> = vec![];
                for i in 0..8u8 {
                    let nk = key(na, ROLE_NEXT, i);
                    let t = BiscuitBuilder::new().code(content_src(content)).unwrap().build_with_key_pair(&root(ra), SymbolTable::new(), &nk).unwrap();
                    let t2 = t.append_with_keypair(&key(na, ROLE_NEXT, 100 + i), block_of("b0")).unwrap();
                    let ids = t2.revocation_identifiers();
                    for (j, a0, a1) in &seen {
                        uniq_pairs += 1;
                        if *a0 == ids[0] || *a1 == ids[1] || ids[0] == ids[1] {
                            ctx.violation(format!("C15/same-identifier-for-distinct-keys/{}>{}", ra.name(), na.name()), json!({"content": content, "key_indices": [j, &i]}));
                        }
                    }
                    seen.push((i, ids[0].clone(), ids[1].clone()));
                }
            }
        }
    }
    // the RNG-drawing API variants give fresh identifiers (2^-256 chance of a false alarm)
    let mut rng_draws = 0;
    for ra in ALGS {
        let mut ids: Vec<Vec<u8>> = vec![];
        for _ in 0..4 {
            let t = BiscuitBuilder::new().code(content_src("b0")).unwrap().build(&root(ra)).unwrap();
            let t2 = t.append(block_of("b0")).unwrap();
            let u = UnverifiedBiscuit::from(t.to_vec().unwrap()).unwrap().append(BlockBuilder::new().code(content_src("b0")).unwrap()).unwrap();
            let tp = {
                let req = t.third_party_request().unwrap();
                let resp = req.create_block(&k1().private(), block_of("t1")).unwrap();
                t.append_third_party(k1().public(), resp).unwrap()
            };
            ids.push(t.revocation_identifiers()[0].clone());
            ids.push(t2.revocation_identifiers()[1].clone());
            ids.push(u.revocation_identifiers()[1].clone());
            ids.push(tp.revocation_identifiers()[1].clone());
            rng_draws += 4;
        }
        let set: BTreeSet<&Vec<u8>> = ids.iter().collect();
        if set.len() != ids.len() {
            ctx.violation(format!("C15/independently-minted-tokens-share-an-identifier/{}", ra.name()), json!({"ids": ids_hex(&ids)}));
        }
    }

    // ---------------- non-malleability
    let (corpus, cst) = build_corpus(tier.pick(3, 3), &["b0", "b5"], &["t1"], &[None]);
    let legit_set: std::collections::HashSet<String> = corpus.tokens.iter().map(|c| format!("{:?}", signed_content(&c.proto).unwrap())).collect();
    let legit = |sc: &Signed| legit_set.contains(&format!("{:?}", sc));
    let variants = AtomicUsize::new(0);
    let accepted = AtomicUsize::new(0);
    let samples_out = Samples::new(5);
    corpus.tokens.par_iter().enumerate().for_each(|(ti, c)| {
        let (orig, view) = orig_of(c).unwrap();
        let rootk = root(c.root_alg).public();
        let n = 1 + c.proto.blocks.len();
        let sealed = c.sealed;
        let mut cands: Vec<(String, Vec<u8>)> = vec![];
        for i in 0..n {
            let role = if i == 0 && n > 1 { "authority" } else if i + 1 == n { "last-block" } else { "middle-block" };
            let blk = if i == 0 { &c.proto.authority } else { &c.proto.blocks[i - 1] };
            for (name, s) in sig_algebra(&blk.signature) {
                let mut m = c.proto.clone();
                if i == 0 {
                    m.authority.signature = s;
                } else {
                    m.blocks[i - 1].signature = s;
                }
                cands.push((format!("block-signature/{name}/{role}/{}", if sealed { "sealed" } else { "unsealed" }), m.encode_to_vec()));
            }
            if let Some(e) = &blk.external_signature {
                for (name, s) in sig_algebra(&e.signature) {
                    let mut m = c.proto.clone();
                    m.blocks[i - 1].external_signature.as_mut().unwrap().signature = s;
                    cands.push((format!("external-signature/{name}/{role}"), m.encode_to_vec()));
                }
            }
        }
        if let Some(schema::proof::Content::FinalSignature(s)) = &c.proto.proof.content {
            for (name, sg) in sig_algebra(s) {
                let mut m = c.proto.clone();
                m.proof.content = Some(schema::proof::Content::FinalSignature(sg));
                cands.push((format!("seal/{name}"), m.encode_to_vec()));
            }
        }
        for (name, v) in proto_reencodings(&c.bytes, &c.proto) {
            cands.push((format!("protobuf/{name}"), v));
        }
        for (class, bytes) in cands {
            variants.fetch_add(1, Ordering::Relaxed);
            let v = judge_with(&orig, &view, &bytes, &rootk, &legit);
            match v {
                Verdict::Rejected => {}
                Verdict::SameContent | Verdict::OtherHonestToken => {
                    accepted.fetch_add(1, Ordering::Relaxed);
                    // accepted: the identifiers presented must be the original ones
                    let ids = Biscuit::from(&bytes, rootk).map(|t| t.revocation_identifiers()).unwrap_or_default();
                    if ids != view.revocation {
                        ctx.violation_lazy(format!("C15/malleable-identifier/{class}"), || json!({"history": show_hist(&c.hist), "operator": class, "original_ids": ids_hex(&view.revocation), "variant_ids": ids_hex(&ids), "variant": hex::encode(&bytes)}));
                    }
                }
                Verdict::Forged(why) => {
                    accepted.fetch_add(1, Ordering::Relaxed);
                    let ids = Biscuit::from(&bytes, rootk).map(|t| t.revocation_identifiers()).unwrap_or_default();
                    if ids != view.revocation {
                        ctx.violation_lazy(format!("C15/malleable-identifier/{class}"), || json!({"history": show_hist(&c.hist), "operator": class, "why": why, "original_ids": ids_hex(&view.revocation), "variant_ids": ids_hex(&ids), "variant": hex::encode(&bytes)}));
                    } else if !class.starts_with("seal/") {
                        ctx.violation_lazy(format!("C15/accepted-variant-with-different-signed-content/{class}"), || json!({"history": show_hist(&c.hist), "operator": class, "why": why}));
                    }
                }
                Verdict::Panic(p) => ctx.violation_lazy(format!("C15/panic/{}", panic_site(&p)), || json!({"history": show_hist(&c.hist), "operator": class, "panic": p})),
            }
            if ti % 29 == 0 {
                samples_out.push(|| json!({"token": show_hist(&c.hist), "operator": class}));
            }
        }
    });

    let cov = json!({
        "states": st.states,
        "transitions": st.transitions,
        "traces_validated_against_impl": st.states,
        "stability": {"states": st.states, "transitions_checked_for_prefix_stability": trans.load(Ordering::Relaxed), "depth_after_build": st.max_depth, "transitions_per_op": st.per_op},
        "uniqueness": {"pairs_of_distinct_fresh_keys_compared": uniq_pairs, "rng_drawing_calls_observed": rng_draws},
        "malleability": {"corpus_tokens": corpus.tokens.len(), "corpus_depth_after_build": cst.max_depth, "signature_level_variants": variants.load(Ordering::Relaxed), "accepted_variants": accepted.load(Ordering::Relaxed)},
        "exhaustive": !st.capped,
        "samples": samples_out.take(),
        "rule": "stability: explicit-state BFS over build/append/append_third_party/seal/convert/reload (both algorithms in every position); in every transition the identifiers of existing blocks are an unchanged prefix, identifiers within a token are pairwise distinct and every load path presents the same list; uniqueness: for identical contents and root key every pair of distinct fresh keys (8 per algorithm) gives distinct identifiers, and the RNG-drawing API variants never repeat one; non-malleability: every signature-algebra operator (ECDSA s-negation, DER re-encodings, ed25519 S+L) on every block signature, external signature and seal, and protobuf re-encodings, of every corpus token: an accepted variant presents the original identifiers",
    });
    ctx.finish(
        "model_checking",
        cov,
        vec!["uniqueness across independent mints is a statement about the OS RNG: only injectivity in the fresh key over the pool is decided, RNG-drawing calls are sampled".into(), "cryptographic hardness assumed".into()],
    );
}

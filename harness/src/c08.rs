//! C08 — sealed tokens are final.
use crate::c01::{judge_with, pools_of, signed_content, structured_mutants, token_class, Signed, TokView, Verdict};
use crate::c02::{initial_states, std_next_ops};
use crate::common::*;
use crate::ehist;
use crate::tok::*;
use biscuit_auth::format::schema;
use biscuit_auth::{AuthorizerBuilder, Biscuit, ThirdPartyBlock, UnverifiedBiscuit};
use prost::Message;
use rayon::prelude::*;
use serde_json::json;
use std::sync::atomic::{AtomicUsize, Ordering};
use std::sync::Mutex;

fn panel() -> Vec<String> {
    let k1 = pk_str(&k1().public());
    vec![
        "allow if true;".to_string(),
        r#"check if right("file1","read"); allow if true;"#.to_string(),
        format!(r#"got($x) <- tp($x) trusting {k1}; check if n(null); allow if got($x); deny if true;"#),
        r#"s("x"); check all right($a, $b), $b == "read"; deny if n($x); allow if true;"#.to_string(),
    ]
}

fn authz(t: &Biscuit, code: &str) -> String {
    match guard(|| {
        let mut a = AuthorizerBuilder::new().code(code).unwrap().limits(crate::c04::big_limits()).build(t).map_err(|e| format!("{e:?}"))?;
        let r = crate::c04::real_decision(&a.authorize()).map(|d| format!("{d:?}")).unwrap_or_else(|e| e);
        Ok::<_, String>(format!("{r}\n{}", a.print_world()))
    }) {
        Ok(Ok(s)) => s,
        Ok(Err(e)) => format!("ERR {e}"),
        Err(p) => format!("PANIC {}", panic_site(&p)),
    }
}

pub fn run(tier: Tier) {
    let ctx = Ctx::new("C08", tier);
    let depth = tier.pick(2, 3);
    let contents: &'static [&'static str] = &["b0", "b5"];
    let tp: &'static [&'static str] = &["t1"];
    let base_next = std_next_ops(tier.pick(&["b0"], &["b0", "b5"]), tp);
    // never seal inside the search: sealing is done in every state by the invariant
    let next = move |h: &[Op], t: &Tok| base_next(h, t).into_iter().filter(|o| *o != Op::Seal).collect::<Vec<_>>();
    let sealed_states = AtomicUsize::new(0);
    let ops_attempted = AtomicUsize::new(0);
    let sealed_tokens: Mutex<Vec<(Vec<Op>, Vec<u8>)>> = Mutex::new(vec![]);
    let samples_out = Samples::new(5);
    let pan = panel();
    // a pooled third-party response (made for an unrelated unsealed token)
    let foreign_obj: ThirdPartyBlock = {
        let t = run_hist(&[Op::Build { root: Alg::Ed, next: Alg::Ed, content: "b0", kid: None }]).unwrap();
        if let Tok::V(b) = t {
            b.third_party_request().unwrap().create_block(&k1().private(), block_of("t1")).unwrap()
        } else {
            unreachable!()
        }
    };
    let foreign_resp: Vec<u8> = foreign_obj.serialize().unwrap();
    let st = ehist::bfs(
        initial_states(contents, &[None]),
        depth,
        2_000_000,
        &next,
        &|h, t| {
            let rootk = root(hist_root(h)).public();
            let cls = token_class(h);
            let sealed = match guard(|| apply(Some(t), &Op::Seal, h.len(), hist_root(h))) {
                Ok(Ok(s)) => s,
                other => {
                    ctx.violation_lazy(format!("C08/seal-refused/{}", t.kind()), || json!({"history": show_hist(h), "error": format!("{:?}", other.map(|r| r.map(|_| ())))}));
                    return;
                }
            };
            sealed_states.fetch_add(1, Ordering::Relaxed);
            let bytes = sealed.to_vec().unwrap_or_default();
            let case = || json!({"history": format!("{} ; seal", show_hist(h)), "kind": t.kind(), "sealed_token_hex": hex::encode(&bytes)});
            // (a) verifies under the same root, same blocks and identifiers
            let unsealed_v = match t.verified(&rootk) {
                Ok(v) => v,
                Err(_) => return,
            };
            let before = TokView::of(&unsealed_v);
            let mut objects: Vec<(&str, Tok)> = vec![("in-memory", sealed.clone())];
            // the object returned by seal() itself (not only what its bytes reload to) is the same token
            if let Tok::V(sv) = &sealed {
                if TokView::of(sv) != before {
                    ctx.violation_lazy(format!("C08/sealing-changed-the-token-in-memory/{cls}"), || json!({"case": case(), "before": format!("{before:?}"), "after": format!("{:?}", TokView::of(sv))}));
                }
                for code in &pan {
                    let (a, b) = (authz(&unsealed_v, code), authz(sv, code));
                    if a != b {
                        ctx.violation_lazy(format!("C08/sealed-authorizes-differently-in-memory/{cls}"), || json!({"case": case(), "authorizer": code, "unsealed": a, "sealed": b}));
                    }
                }
            }
            match Biscuit::from(&bytes, rootk) {
                Ok(r) => {
                    if TokView::of(&r) != before {
                        ctx.violation_lazy(format!("C08/sealing-changed-the-token/{cls}"), || json!({"case": case(), "before": format!("{before:?}"), "after": format!("{:?}", TokView::of(&r))}));
                    }
                    if r.context() != unsealed_v.context() {
                        ctx.violation_lazy("C08/sealing-changed-contexts".to_string(), case);
                    }
                    // same authorization as the unsealed token
                    for code in &pan {
                        let (a, b) = (authz(&unsealed_v, code), authz(&r, code));
                        if a != b {
                            ctx.violation_lazy(format!("C08/sealed-authorizes-differently/{cls}"), || json!({"case": case(), "authorizer": code, "unsealed": a, "sealed": b}));
                        }
                    }
                    objects.push(("Biscuit::from", Tok::V(r)));
                }
                Err(e) => ctx.violation_lazy(format!("C08/sealed-token-does-not-verify/{cls}"), || json!({"case": case(), "error": format!("{e:?}")})),
            }
            for (name, r) in [
                ("Biscuit::from_base64", Biscuit::from_base64(base64::encode_config(&bytes, base64::URL_SAFE), rootk).map(Tok::V).map_err(|e| format!("{e:?}"))),
                ("UnverifiedBiscuit::from", UnverifiedBiscuit::from(&bytes).map(Tok::U).map_err(|e| format!("{e:?}"))),
                ("UnverifiedBiscuit::from+verify", UnverifiedBiscuit::from(&bytes).map_err(|e| format!("{e:?}")).and_then(|u| u.verify(rootk).map(Tok::V).map_err(|e| format!("{e:?}")))),
            ] {
                match r {
                    Ok(o) => objects.push((name, o)),
                    Err(e) => ctx.violation_lazy(format!("C08/sealed-token-does-not-load/{name}/{cls}"), || json!({"case": case(), "error": e})),
                }
            }
            // (b) every operation is refused, on the in-memory object and after every load path
            for (oname, obj) in &objects {
                let mut ops: Vec<Op> = vec![Op::Seal];
                for n in ALGS {
                    for c in ["b0", "b5", "b3"] {
                        ops.push(Op::Append { next: n, content: c });
                    }
                    for e in ALGS {
                        ops.push(Op::AppendTp { ext: e, next: n, content: "t1" });
                    }
                }
                for op in ops {
                    ops_attempted.fetch_add(1, Ordering::Relaxed);
                    match guard(|| apply(Some(obj), &op, h.len() + 1, hist_root(h))) {
                        Ok(Err(_)) => {}
                        Ok(Ok(_)) => {
                            let opname = op.show().split('(').next().unwrap_or("").to_string();
                            ctx.violation_lazy(format!("C08/{opname}-accepted-on-sealed-token/{}/{oname}", obj.kind()), || json!({"case": case(), "op": op.show()}))
                        }
                        Err(p) => ctx.violation_lazy(format!("C08/panic/{}", panic_site(&p)), || json!({"case": case(), "op": op.show(), "panic": p})),
                    }
                }
                // third_party_request and a pooled response
                ops_attempted.fetch_add(2, Ordering::Relaxed);
                let (req_ok, app_ok) = match obj {
                    Tok::V(b) => (
                        guard(|| b.third_party_request().is_ok()).unwrap_or(true),
                        guard(|| b.append_third_party(k1().public(), foreign_obj.clone()).is_ok()).unwrap_or(true),
                    ),
                    Tok::U(u) => (guard(|| u.third_party_request().is_ok()).unwrap_or(true), guard(|| u.append_third_party(&foreign_resp).is_ok()).unwrap_or(true)),
                };
                if req_ok {
                    ctx.violation_lazy(format!("C08/third_party_request-accepted-on-sealed-token/{}/{oname}", obj.kind()), case);
                }
                if app_ok {
                    ctx.violation_lazy(format!("C08/append_third_party-with-pooled-response-accepted-on-sealed-token/{}/{oname}", obj.kind()), case);
                }
            }
            if matches!(t, Tok::V(_)) {
                sealed_tokens.lock().unwrap().push((h.to_vec(), bytes.clone()));
            }
            if h.len() == depth + 1 {
                samples_out.push(|| json!(format!("{} ; seal", show_hist(h))));
            }
        },
        &|_, _, _, _| {},
        &|_, _, _, _| {},
    );

    // ---------------- tokens built on a custom base symbol table (build_with_key_pair(.., symbols, ..),
    // reloaded with from_with_symbols): sealing keeps them the same token, in memory and after a reload
    let custom_cases = AtomicUsize::new(0);
    {
        use biscuit_auth::datalog::SymbolTable;
        let base = || {
            let mut s = SymbolTable::new();
            s.insert("file1");
            s.insert("custom symbol");
            s.insert("s");
            s
        };
        let shapes: Vec<Vec<&str>> = vec![vec![], vec!["b1"], vec!["b2", "b1"], vec!["t1"], vec!["b1", "t0"], vec!["t1", "b2"]];
        let mut cfgs = vec![];
        for r in ALGS {
            for first in ["b0", "b1"] {
                for sh in &shapes {
                    cfgs.push((r, first, sh.clone()));
                }
            }
        }
        cfgs.par_iter().for_each(|(r, first, sh)| {
            custom_cases.fetch_add(1, Ordering::Relaxed);
            let desc = || json!({"root": r.name(), "base_symbols": ["file1", "custom symbol", "s"], "authority": first, "appended": sh});
            let res = guard(|| -> Result<(), String> {
                let e = |x: biscuit_auth::error::Token| format!("{x:?}");
                let mut t = biscuit_auth::builder::BiscuitBuilder::new().code(content_src(first)).map_err(e)?.build_with_key_pair(&root(*r), base(), &key(Alg::Ed, ROLE_NEXT, 40)).map_err(e)?;
                for (n, c) in sh.iter().enumerate() {
                    if c.starts_with('t') {
                        let req = t.third_party_request().map_err(e)?;
                        let resp = req.create_block(&k1().private(), block_of(c)).map_err(e)?;
                        t = t.append_third_party_with_keypair(k1().public(), resp, key(Alg::Ed, ROLE_NEXT, 41 + n as u8)).map_err(e)?;
                    } else {
                        t = t.append_with_keypair(&key(Alg::P256, ROLE_NEXT, 41 + n as u8), block_of(c)).map_err(e)?;
                    }
                }
                let before = TokView::of(&t);
                let sealed = t.seal().map_err(e)?;
                let mut objs: Vec<(&str, Biscuit)> = vec![("seal() in memory", sealed.clone())];
                let reload = |b: &Biscuit| -> Result<Biscuit, String> {
                    let bytes = b.to_vec().map_err(e)?;
                    UnverifiedBiscuit::from_with_symbols(&bytes, base()).map_err(e)?.verify(root(*r).public()).map_err(|x| format!("{x:?}"))
                };
                objs.push(("unsealed reloaded with the base symbols", reload(&t)?));
                objs.push(("sealed reloaded with the base symbols", reload(&sealed)?));
                for (name, o) in &objs {
                    if TokView::of(o) != before {
                        ctx.violation_lazy(format!("C08/custom-base-symbols/token-differs/{name}"), || json!({"case": desc(), "before": format!("{before:?}"), "after": format!("{:?}", TokView::of(o))}));
                    }
                    for code in &pan {
                        let (a, b) = (authz(&t, code), authz(o, code));
                        if a != b {
                            ctx.violation_lazy(format!("C08/custom-base-symbols/authorizes-differently/{name}"), || json!({"case": desc(), "authorizer": code, "original": a, "other": b}));
                        }
                    }
                }
                Ok(())
            });
            match res {
                Ok(Ok(())) => {}
                Ok(Err(er)) => ctx.violation_lazy("C08/custom-base-symbols/operation-failed".to_string(), || json!({"case": desc(), "error": er})),
                Err(pn) => ctx.violation_lazy(format!("C08/panic/{}", panic_site(&pn)), || json!({"case": desc(), "panic": pn})),
            }
        });
    }

    // ---------------- fault enumeration on sealed tokens
    let mut sealed = sealed_tokens.into_inner().unwrap();
    sealed.sort();
    sealed.dedup_by(|a, b| a.1 == b.1);
    // partner material: the unsealed originals, all sealed tokens of the same build op, and prefixes
    let protos: Vec<(Vec<Op>, schema::Biscuit, Vec<u8>)> = sealed.iter().map(|(h, b)| (h.clone(), schema::Biscuit::decode(&b[..]).unwrap(), b.clone())).collect();
    let unsealed_protos: Vec<schema::Biscuit> = sealed.iter().filter_map(|(h, _)| run_hist(h).ok()).filter_map(|t| t.to_vec().ok()).map(|b| schema::Biscuit::decode(&b[..]).unwrap()).collect();
    let legit_set: std::collections::HashSet<String> = protos.iter().map(|p| &p.1).chain(unsealed_protos.iter()).map(|p| format!("{:?}", signed_content(p).unwrap())).collect();
    let legit = |sc: &Signed| legit_set.contains(&format!("{:?}", sc));
    let faults = AtomicUsize::new(0);
    let rejected = AtomicUsize::new(0);
    // fault injection is quadratic in the number of sealed tokens (every token is a partner of every other one
    // with the same first operation): it runs on an evenly spaced subset of the sealed tokens, all of which
    // are still partners; the subset size is reported
    let limit = tier.pick(64, 1024);
    let stride = (protos.len() / limit).max(1);
    let chosen: Vec<&(Vec<Op>, schema::Biscuit, Vec<u8>)> = protos.iter().step_by(stride).take(limit).collect();
    let fault_injected_tokens = chosen.len();
    chosen.par_iter().for_each(|(h, p, bytes)| {
        let rootk = root(hist_root(h)).public();
        let partners: Vec<&schema::Biscuit> = protos.iter().filter(|(h2, _, _)| h2[0] == h[0]).map(|x| &x.1).chain(unsealed_protos.iter().filter(|u| u.authority == p.authority)).collect();
        let pools = pools_of(partners.into_iter());
        let orig = signed_content(p).unwrap();
        let view = match Biscuit::from(bytes, rootk) {
            Ok(t) => TokView::of(&t),
            Err(_) => return,
        };
        let mut muts = structured_mutants(p, &pools);
        // sealed-specific operators
        // (i) a block appended after the seal, keeping the seal
        for b in &pools.blocks {
            let mut m = p.clone();
            m.blocks.push(b.clone());
            muts.push(crate::c01::Mutant { class: "sealed/append-block-keeping-seal".into(), token: m });
        }
        // (ii) last block removed keeping the seal
        if !p.blocks.is_empty() {
            let mut m = p.clone();
            m.blocks.pop();
            muts.push(crate::c01::Mutant { class: "sealed/remove-last-block-keeping-seal".into(), token: m });
        }
        // (iii) unsealing: the seal bytes presented as the next secret
        if let Some(schema::proof::Content::FinalSignature(s)) = &p.proof.content {
            let mut m = p.clone();
            m.proof.content = Some(schema::proof::Content::NextSecret(s[..32.min(s.len())].to_vec()));
            muts.push(crate::c01::Mutant { class: "sealed/seal-prefix-as-secret".into(), token: m });
        }
        for m in muts {
            let vb = m.token.encode_to_vec();
            if vb == *bytes {
                continue;
            }
            faults.fetch_add(1, Ordering::Relaxed);
            match judge_with(&orig, &view, &vb, &rootk, &legit) {
                Verdict::Rejected => {
                    rejected.fetch_add(1, Ordering::Relaxed);
                }
                Verdict::SameContent | Verdict::OtherHonestToken => {}
                Verdict::Forged(why) => {
                    // C08 is about blocks: a variant whose blocks are all unchanged (only the
                    // proof bytes differ, e.g. ECDSA s-negation of the seal) is C01's business
                    let same_blocks = signed_content(&m.token).map(|sc| sc.blocks == orig.blocks).unwrap_or(false);
                    if same_blocks {
                        ctx.observe(format!("accepted variant with unchanged blocks: {}", m.class));
                        continue;
                    }
                    ctx.violation_lazy(format!("C08/{}", m.class), || json!({"history": format!("{} ; seal", show_hist(h)), "operator": m.class, "why": why, "variant": hex::encode(&vb)}))
                }
                Verdict::Panic(pn) => ctx.violation_lazy(format!("C08/panic/{}", panic_site(&pn)), || json!({"operator": m.class, "panic": pn})),
            }
        }
    });

    let cov = json!({
        "states": st.states,
        "transitions": st.transitions + ops_attempted.load(Ordering::Relaxed),
        "traces_validated_against_impl": sealed_states.load(Ordering::Relaxed),
        "states_sealed_through_their_own_api": sealed_states.load(Ordering::Relaxed),
        "operations_attempted_on_sealed_tokens": ops_attempted.load(Ordering::Relaxed),
        "sealed_tokens_mutated": protos.len().min(limit),
        "custom_base_symbol_table_configurations": custom_cases.load(Ordering::Relaxed),
        "structured_faults_on_sealed_tokens": faults.load(Ordering::Relaxed),
        "sealed_tokens_fault_injected (evenly spaced subset)": fault_injected_tokens,
        "sealed_tokens_total": protos.len(),
        "faults_refused": rejected.load(Ordering::Relaxed),
        "depth_after_build": st.max_depth,
        "exhaustive": !st.capped,
        "samples": samples_out.take(),
        "rule": "explicit-state BFS over build/append/append_third_party/convert/reload (both algorithms, Biscuit and UnverifiedBiscuit); in every state the token is sealed through its own API: the sealed token must load through 4 paths under the same root with the same blocks, identifiers and contexts, authorize like the unsealed one for a panel of authorizers, and refuse every operation of the alphabet (append x 6, append_third_party x 4, third_party_request, a pooled response, seal) on the in-memory object and after each load path; then every structured fault of the C01 engine plus sealed-specific operators (block appended after the seal, last block removed keeping the seal, seal bytes as secret, seals and block signatures of partner tokens and prefixes) on the sealed tokens",
    });
    ctx.finish("model_checking", cov, vec!["cryptographic hardness assumed; ECDSA s-negation of the seal is reported under C01".into()]);
}

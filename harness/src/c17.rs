//! C17 — key and signature encodings round-trip and reject malformed material.
use crate::common::*;
use crate::tok::*;
use biscuit_auth::builder::Algorithm;
use biscuit_auth::format::schema;
use biscuit_auth::{KeyPair, PrivateKey, PublicKey};
use rayon::prelude::*;
use serde_json::json;
use std::str::FromStr;
use std::sync::atomic::{AtomicUsize, Ordering};

fn other(a: Alg) -> Alg {
    if a == Alg::Ed {
        Alg::P256
    } else {
        Alg::Ed
    }
}

fn keys(tier: Tier) -> Vec<(String, KeyPair)> {
    let mut v = vec![];
    for a in ALGS {
        for i in 0..tier.pick(48u8, 128) {
            v.push((format!("{}#{}", a.name(), i), key(a, 9, i)));
        }
    }
    // edge scalars / seeds
    let mut one = [0u8; 32];
    one[31] = 1;
    let n_minus_1 = hex::decode("ffffffff00000000ffffffffffffffffbce6faada7179e84f3b9cac2fc632550").unwrap();
    for (name, bytes, a) in [
        ("p256-scalar-1", one.to_vec(), Alg::P256),
        ("p256-scalar-n-1", n_minus_1, Alg::P256),
        ("ed-seed-zero", vec![0u8; 32], Alg::Ed),
        ("ed-seed-ff", vec![0xff; 32], Alg::Ed),
    ] {
        match PrivateKey::from_bytes(&bytes, a.to_builder()) {
            Ok(p) => v.push((name.to_string(), KeyPair::from(&p))),
            Err(e) => panic!("edge key {name}: {e:?}"),
        }
    }
    v
}

fn alg_of_pub(k: &PublicKey) -> Alg {
    match k {
        PublicKey::Ed25519(_) => Alg::Ed,
        PublicKey::P256(_) => Alg::P256,
    }
}
fn alg_of_priv(k: &PrivateKey) -> Alg {
    match k {
        PrivateKey::Ed25519(_) => Alg::Ed,
        PrivateKey::P256(_) => Alg::P256,
    }
}

fn bit_flips(v: &[u8]) -> Vec<Vec<u8>> {
    let mut out = vec![];
    for i in 0..v.len() {
        for b in 0..8 {
            let mut x = v.to_vec();
            x[i] ^= 1 << b;
            out.push(x);
        }
    }
    out
}

fn length_variants(v: &[u8]) -> Vec<Vec<u8>> {
    let mut out: Vec<Vec<u8>> = (0..v.len()).map(|n| v[..n].to_vec()).collect();
    for extra in [vec![0u8], vec![0xff], vec![0, 0], vec![1, 2]] {
        let mut x = v.to_vec();
        x.extend(extra);
        out.push(x);
    }
    out
}

fn text_variants(s: &str) -> Vec<String> {
    let chars: Vec<char> = s.chars().collect();
    let mut out = vec![];
    for i in 0..chars.len() {
        for c in ['0', 'g', '/', ':', ' ', 'F'] {
            if chars[i] != c {
                let mut x = chars.clone();
                x[i] = c;
                out.push(x.iter().collect());
            }
        }
        let mut x = chars.clone();
        x.remove(i);
        out.push(x.iter().collect());
    }
    out.push(format!("{s}0"));
    out.push(format!("{s}00"));
    out.push(format!(" {s}"));
    out.push(s.to_uppercase());
    out
}

/// is `x` a valid SEC1 spelling of the P-256 public key `k`?
fn sec1_same(x: &[u8], k: &PublicKey) -> bool {
    match (p256::ecdsa::VerifyingKey::from_sec1_bytes(x), k) {
        (Ok(v), PublicKey::P256(_)) => v.to_encoded_point(true).as_bytes() == &k.to_bytes()[..],
        _ => false,
    }
}

pub fn run(tier: Tier) {
    let ctx = Ctx::new("C17", tier);
    let ks = keys(tier);
    let evals = AtomicUsize::new(0);
    let refused = AtomicUsize::new(0);
    let samples_out = Samples::new(6);
    let ev = || {
        evals.fetch_add(1, Ordering::Relaxed);
    };

    ks.par_iter().for_each(|(name, kp)| {
        let a = alg_of(kp);
        let ab = a.to_builder();
        let ob = other(a).to_builder();
        let sk = kp.private();
        let pk = kp.public();
        let class = if name.contains('#') { a.name().to_string() } else { name.clone() };
        let fail = |what: &str, detail: serde_json::Value| ctx.violation_lazy(format!("C17/{what}/{class}"), || json!({"key": name, "detail": detail}));
        macro_rules! rt {
            ($what:expr, $e:expr, $expect:expr) => {{
                ev();
                match guard(|| $e) {
                    Err(p) => ctx.violation_lazy(format!("C17/panic/{}", panic_site(&p)), || json!({"key": name, "round_trip": $what, "panic": p})),
                    Ok(Err(e)) => fail(&format!("round-trip-fails/{}", $what), json!(format!("{e:?}"))),
                    Ok(Ok(v)) => {
                        if v != $expect {
                            fail(&format!("round-trip-changes-key/{}", $what), json!(null));
                        }
                    }
                }
            }};
        }
        // ---------------- round trips (exact)
        rt!("private/bytes", PrivateKey::from_bytes(&sk.to_bytes(), ab), sk);
        rt!("private/hex", PrivateKey::from_bytes_hex(&sk.to_bytes_hex(), ab), sk);
        rt!("private/prefixed-string", PrivateKey::from_str(&sk.to_prefixed_string()), sk);
        rt!("private/der", sk.to_der().and_then(|d| PrivateKey::from_der_with_algorithm(&d, ab)), sk);
        rt!("private/der-autodetect", sk.to_der().and_then(|d| PrivateKey::from_der(&d)), sk);
        rt!("private/pem", sk.to_pem().and_then(|d| PrivateKey::from_pem_with_algorithm(&d, ab)), sk);
        rt!("private/pem-autodetect", sk.to_pem().and_then(|d| PrivateKey::from_pem(&d)), sk);
        rt!("public/bytes", PublicKey::from_bytes(&pk.to_bytes(), ab), pk);
        rt!("public/hex", PublicKey::from_bytes_hex(&pk.to_bytes_hex(), ab), pk);
        rt!("public/display-fromstr", PublicKey::from_str(&format!("{pk}")), pk);
        rt!("public/print-fromstr", PublicKey::from_str(&pk.print()), pk);
        rt!("public/der", pk.to_der().and_then(|d| PublicKey::from_der_with_algorithm(&d, ab)), pk);
        rt!("public/der-autodetect", pk.to_der().and_then(|d| PublicKey::from_der(&d)), pk);
        rt!("public/pem", pk.to_pem().and_then(|d| PublicKey::from_pem_with_algorithm(&d, ab)), pk);
        rt!("public/pem-autodetect", pk.to_pem().and_then(|d| PublicKey::from_pem(&d)), pk);
        rt!("public/proto", PublicKey::from_proto(&pk.to_proto()), pk);
        rt!("keypair/der", kp.to_private_key_der().and_then(|d| KeyPair::from_private_key_der_with_algorithm(&d, ab)).map(|k| k.private()), sk);
        rt!("keypair/der-autodetect", kp.to_private_key_der().and_then(|d| KeyPair::from_private_key_der(&d)).map(|k| k.private()), sk);
        rt!("keypair/pem", kp.to_private_key_pem().and_then(|d| KeyPair::from_private_key_pem_with_algorithm(&d, ab)).map(|k| k.private()), sk);
        rt!("keypair/pem-autodetect", kp.to_private_key_pem().and_then(|d| KeyPair::from_private_key_pem(&d)).map(|k| k.private()), sk);
        rt!("keypair/bytes", KeyPair::from_bytes(&sk.to_bytes(), a_proto(a)).map(|k| k.private()), sk);
        // a private key always yields the same public key, through every path
        for (path, p2) in [
            ("from-keypair", KeyPair::from(&sk).public()),
            ("private.public", sk.public()),
            ("after-der", sk.to_der().ok().and_then(|d| PrivateKey::from_der(&d).ok()).map(|s| s.public()).unwrap_or(pk)),
            ("after-string", PrivateKey::from_str(&sk.to_prefixed_string()).map(|s| s.public()).unwrap_or(pk)),
        ] {
            ev();
            if p2 != pk {
                fail(&format!("public-key-not-stable/{path}"), json!(null));
            }
        }
        // independent derivation
        ev();
        let indep = match a {
            Alg::Ed => {
                let sb: [u8; 32] = sk.to_bytes()[..].try_into().unwrap();
                ed25519_dalek::SigningKey::from_bytes(&sb).verifying_key().to_bytes().to_vec()
            }
            Alg::P256 => p256::ecdsa::SigningKey::from_slice(&sk.to_bytes()).unwrap().verifying_key().to_encoded_point(true).as_bytes().to_vec(),
        };
        if indep != pk.to_bytes() {
            fail("public-key-differs-from-independent-derivation", json!({"library": pk.to_bytes_hex(), "independent": hex::encode(indep)}));
        }

        // ---------------- corruptions: raw public bytes
        let pkb = pk.to_bytes();
        let mut raw_variants = length_variants(&pkb);
        raw_variants.extend(bit_flips(&pkb));
        if a == Alg::P256 {
            // other SEC1 forms
            let vk = p256::ecdsa::VerifyingKey::from_sec1_bytes(&pkb).unwrap();
            let unc = vk.to_encoded_point(false).as_bytes().to_vec();
            let mut hybrid = unc.clone();
            hybrid[0] = 0x06 | (pkb[0] & 1);
            raw_variants.push(unc);
            raw_variants.push(hybrid);
            raw_variants.push(vec![0u8]); // identity
            let mut xp = pkb.clone();
            for b in xp.iter_mut().skip(1) {
                *b = 0xff;
            }
            raw_variants.push(xp); // x >= p
        }
        for x in raw_variants {
            if x == pkb {
                continue;
            }
            ev();
            match guard(|| PublicKey::from_bytes(&x, ab)) {
                Err(p) => ctx.violation_lazy(format!("C17/panic/{}", panic_site(&p)), || json!({"key": name, "input": hex::encode(&x), "panic": p})),
                Ok(Err(_)) => {
                    refused.fetch_add(1, Ordering::Relaxed);
                }
                Ok(Ok(k2)) => {
                    // accepted: it must be exactly the key these bytes spell
                    let exact = k2.to_bytes() == x || sec1_same(&x, &k2);
                    if !exact {
                        fail("public-bytes-accepted-but-not-what-they-spell", json!({"input": hex::encode(&x), "decoded": k2.to_bytes_hex()}));
                    }
                    if x.len() != pkb.len() && !sec1_same(&x, &k2) {
                        fail("public-bytes-wrong-length-accepted", json!({"input": hex::encode(&x)}));
                    }
                }
            }
            // the other algorithm never accepts these bytes
            ev();
            match guard(|| PublicKey::from_bytes(&x, ob)) {
                Err(p) => ctx.violation_lazy(format!("C17/panic/{}", panic_site(&p)), || json!({"key": name, "input": hex::encode(&x), "panic": p})),
                Ok(Ok(k2)) => {
                    if k2.to_bytes() != x && !sec1_same(&x, &k2) {
                        fail("public-bytes-accepted-by-other-algorithm-as-something-else", json!({"input": hex::encode(&x)}));
                    }
                }
                Ok(Err(_)) => {
                    refused.fetch_add(1, Ordering::Relaxed);
                }
            }
        }
        ev();
        if guard(|| PublicKey::from_bytes(&pkb, ob).is_ok()).unwrap_or(true) {
            fail("public-bytes-accepted-under-the-other-algorithm", json!(hex::encode(&pkb)));
        }
        // proto with the wrong / unknown algorithm id
        for alg_id in [other(a).id(), 2, -1, 7, i32::MAX] {
            ev();
            let pr = schema::PublicKey { algorithm: alg_id, key: pkb.clone() };
            match guard(|| PublicKey::from_proto(&pr)) {
                Err(p) => ctx.violation_lazy(format!("C17/panic/{}", panic_site(&p)), || json!({"key": name, "proto_algorithm": alg_id, "panic": p})),
                Ok(Ok(_)) => fail(&format!("proto-with-algorithm-id-{alg_id}-accepted"), json!(hex::encode(&pkb))),
                Ok(Err(_)) => {
                    refused.fetch_add(1, Ordering::Relaxed);
                }
            }
        }
        // ---------------- corruptions: raw private bytes (lengths only: every 32-byte string is a seed)
        let skb = sk.to_bytes().to_vec();
        for x in length_variants(&skb) {
            ev();
            for alg in [ab, ob] {
                match guard(|| PrivateKey::from_bytes(&x, alg)) {
                    Err(p) => ctx.violation_lazy(format!("C17/panic/{}", panic_site(&p)), || json!({"key": name, "input_len": x.len(), "panic": p})),
                    Ok(Ok(_)) => fail("private-bytes-wrong-length-accepted", json!({"len": x.len()})),
                    Ok(Err(_)) => {
                        refused.fetch_add(1, Ordering::Relaxed);
                    }
                }
                match guard(|| KeyPair::from_bytes(&x, a_proto(if alg == ab { a } else { other(a) }))) {
                    Err(p) => ctx.violation_lazy(format!("C17/panic/{}", panic_site(&p)), || json!({"key": name, "input_len": x.len(), "panic": p})),
                    Ok(Ok(_)) => fail("keypair-bytes-wrong-length-accepted", json!({"len": x.len()})),
                    Ok(Err(_)) => {}
                }
            }
        }
        if a == Alg::P256 {
            for bad in [vec![0u8; 32], hex::decode("ffffffff00000000ffffffffffffffffbce6faada7179e84f3b9cac2fc632551").unwrap(), vec![0xff; 32]] {
                ev();
                if guard(|| PrivateKey::from_bytes(&bad, ab).is_ok()).unwrap_or(true) {
                    fail("p256-scalar-out-of-range-accepted", json!(hex::encode(&bad)));
                }
            }
        }
        // ---------------- corruptions: text forms
        let pub_str = format!("{pk}");
        for x in text_variants(&pub_str) {
            if x == pub_str {
                continue;
            }
            ev();
            match guard(|| PublicKey::from_str(&x)) {
                Err(p) => ctx.violation_lazy(format!("C17/panic/{}", panic_site(&p)), || json!({"key": name, "input": x, "panic": p})),
                Ok(Err(_)) => {
                    refused.fetch_add(1, Ordering::Relaxed);
                }
                Ok(Ok(k2)) => {
                    // a valid spelling of k2 (hex is case-insensitive)
                    if format!("{k2}").to_lowercase() != x.to_lowercase() {
                        fail("public-string-accepted-but-not-a-spelling-of-the-result", json!({"input": x, "decoded": format!("{k2}")}));
                    }
                }
            }
        }
        let priv_str = sk.to_prefixed_string();
        for x in text_variants(&priv_str) {
            if x == priv_str {
                continue;
            }
            ev();
            match guard(|| PrivateKey::from_str(&x)) {
                Err(p) => ctx.violation_lazy(format!("C17/panic/{}", panic_site(&p)), || json!({"key": name, "panic": p})),
                Ok(Err(_)) => {
                    refused.fetch_add(1, Ordering::Relaxed);
                }
                Ok(Ok(k2)) => {
                    if k2.to_prefixed_string().to_lowercase() != x.to_lowercase() {
                        fail("private-string-accepted-but-not-a-spelling-of-the-result", json!({"input_len": x.len()}));
                    }
                }
            }
        }
        // prefix swapped / missing
        for x in [pub_str.replace(a.name_long(), other(a).name_long()), pk.to_bytes_hex(), format!("/{}", pk.to_bytes_hex()), format!("rsa/{}", pk.to_bytes_hex())] {
            ev();
            match guard(|| PublicKey::from_str(&x)) {
                Err(p) => ctx.violation_lazy(format!("C17/panic/{}", panic_site(&p)), || json!({"key": name, "input": x, "panic": p})),
                Ok(Ok(_)) => fail("public-string-with-wrong-or-missing-algorithm-accepted", json!(x)),
                Ok(Err(_)) => {
                    refused.fetch_add(1, Ordering::Relaxed);
                }
            }
        }
        for x in [sk.to_bytes_hex(), format!("/{}", sk.to_bytes_hex()), format!("rsa/{}", sk.to_bytes_hex())] {
            ev();
            if guard(|| PrivateKey::from_str(&x).is_ok()).unwrap_or(true) {
                fail("private-string-with-missing-or-unknown-algorithm-accepted", json!(null));
            }
        }
        // ---------------- corruptions: DER / PEM
        if let (Ok(pder), Ok(sder)) = (pk.to_der(), sk.to_der()) {
            let sder = sder.to_vec();
            let mut dv: Vec<(&str, Vec<u8>)> = vec![];
            for x in length_variants(&pder) {
                dv.push(("public", x));
            }
            for x in length_variants(&sder) {
                dv.push(("private", x));
            }
            if tier == Tier::Thorough || name.ends_with("#0") || !name.contains('#') {
                for x in bit_flips(&pder) {
                    dv.push(("public", x));
                }
                for x in bit_flips(&sder) {
                    dv.push(("private", x));
                }
            }
            for (which, x) in dv {
                ev();
                if which == "public" {
                    match guard(|| PublicKey::from_der(&x)) {
                        Err(p) => ctx.violation_lazy(format!("C17/panic/{}", panic_site(&p)), || json!({"key": name, "der": hex::encode(&x), "panic": p})),
                        Ok(Err(_)) => {
                            refused.fetch_add(1, Ordering::Relaxed);
                        }
                        Ok(Ok(k2)) => {
                            let canonical = k2.to_der().map(|d| d == x).unwrap_or(false);
                            if k2 != pk && !canonical {
                                fail("public-der-accepted-as-another-key-it-does-not-spell", json!({"der": hex::encode(&x), "decoded": format!("{k2}")}));
                            } else if !canonical {
                                ctx.observe("a non-canonical DER variant decodes to the same public key".to_string());
                            }
                        }
                    }
                    ev();
                    if x != pder && false {
                        unreachable!();
                    }
                    // explicit other algorithm never accepts
                    if let Ok(Ok(_)) = guard(|| PublicKey::from_der_with_algorithm(&x, ob)) {
                        fail("public-der-accepted-under-the-other-algorithm", json!(hex::encode(&x)));
                    }
                } else {
                    match guard(|| PrivateKey::from_der(&x)) {
                        Err(p) => ctx.violation_lazy(format!("C17/panic/{}", panic_site(&p)), || json!({"key": name, "panic": p})),
                        Ok(Err(_)) => {
                            refused.fetch_add(1, Ordering::Relaxed);
                        }
                        Ok(Ok(k2)) => {
                            let canonical = k2.to_der().map(|d| d.to_vec() == x).unwrap_or(false);
                            if k2 != sk && !canonical {
                                fail("private-der-accepted-as-another-key-it-does-not-spell", json!({"len": x.len()}));
                            } else if !canonical {
                                ctx.observe("a non-canonical DER variant decodes to the same private key".to_string());
                            }
                        }
                    }
                    if let Ok(Ok(_)) = guard(|| PrivateKey::from_der_with_algorithm(&x, ob)) {
                        fail("private-der-accepted-under-the-other-algorithm", json!(x.len()));
                    }
                    if let Err(p) = guard(|| KeyPair::from_private_key_der(&x).is_ok()) {
                        ctx.violation_lazy(format!("C17/panic/{}", panic_site(&p)), || json!({"key": name, "panic": p}));
                    }
                }
            }
        }
        if let (Ok(ppem), Ok(spem)) = (pk.to_pem(), sk.to_pem()) {
            for (which, pem) in [("public", ppem.clone()), ("private", spem.to_string())] {
                let chars: Vec<char> = pem.chars().collect();
                let mut variants: Vec<String> = vec![];
                for i in 0..chars.len() {
                    let mut x = chars.clone();
                    x.remove(i);
                    variants.push(x.iter().collect());
                    for c in ['A', '=', '-', ' '] {
                        if chars[i] != c {
                            let mut y = chars.clone();
                            y[i] = c;
                            variants.push(y.iter().collect());
                        }
                    }
                }
                variants.push(pem.replace("PUBLIC", "PRIVATE"));
                variants.push(pem.replace("PRIVATE", "PUBLIC"));
                variants.push(String::new());
                for x in variants {
                    if x == pem {
                        continue;
                    }
                    ev();
                    if which == "public" {
                        match guard(|| PublicKey::from_pem(&x)) {
                            Err(p) => ctx.violation_lazy(format!("C17/panic/{}", panic_site(&p)), || json!({"key": name, "pem": x, "panic": p})),
                            Ok(Err(_)) => {
                                refused.fetch_add(1, Ordering::Relaxed);
                            }
                            Ok(Ok(k2)) => {
                                // accepted: it re-encodes to something that decodes to itself, and is either the
                                // original key (an alternative spelling) or what the edited body canonically spells
                                let body_canonical = k2.to_pem().map(|p| p.split_whitespace().collect::<String>() == x.split_whitespace().collect::<String>()).unwrap_or(false);
                                if k2 != pk && !body_canonical {
                                    fail("public-pem-accepted-as-another-key-it-does-not-spell", json!({"pem": x}));
                                }
                            }
                        }
                        if let Ok(Ok(_)) = guard(|| PublicKey::from_pem_with_algorithm(&x, ob)) {
                            fail("public-pem-accepted-under-the-other-algorithm", json!(x));
                        }
                    } else {
                        match guard(|| PrivateKey::from_pem(&x)) {
                            Err(p) => ctx.violation_lazy(format!("C17/panic/{}", panic_site(&p)), || json!({"key": name, "panic": p})),
                            Ok(Err(_)) => {
                                refused.fetch_add(1, Ordering::Relaxed);
                            }
                            Ok(Ok(k2)) => {
                                let body_canonical = k2.to_pem().map(|p| p.split_whitespace().collect::<String>() == x.split_whitespace().collect::<String>()).unwrap_or(false);
                                if k2 != sk && !body_canonical {
                                    fail("private-pem-accepted-as-another-key-it-does-not-spell", json!(null));
                                }
                            }
                        }
                        if let Ok(Ok(_)) = guard(|| PrivateKey::from_pem_with_algorithm(&x, ob)) {
                            fail("private-pem-accepted-under-the-other-algorithm", json!(null));
                        }
                    }
                }
            }
        }
        samples_out.push(|| json!({"key": name, "public": pub_str}));
    });

    // ---------------- signatures
    let sig_evals = AtomicUsize::new(0);
    let messages: Vec<Vec<u8>> = vec![vec![], vec![0x42], vec![7u8; 32], block_of("b1").to_string().into_bytes(), (0..65536u32).map(|i| (i % 251) as u8).collect()];
    let sig_keys: Vec<&(String, KeyPair)> = ks.iter().filter(|(n, _)| !n.contains('#') || n.ends_with("#0") || n.ends_with("#1") || n.ends_with("#2")).collect();
    let pairs: Vec<(usize, usize)> = (0..sig_keys.len()).flat_map(|k| (0..messages.len()).map(move |m| (k, m))).collect();
    pairs.par_iter().for_each(|(ki, mi)| {
        let (name, kp) = sig_keys[*ki];
        let msg = &messages[*mi];
        let a = alg_of(kp);
        let pk = kp.public();
        let class = format!("{}/msg{}", a.name(), msg.len());
        let sig = match guard(|| kp.sign(msg)) {
            Ok(Ok(s)) => s,
            other => {
                ctx.violation_lazy(format!("C17/sign-fails/{class}"), || json!({"key": name, "error": format!("{:?}", other.map(|r| r.map(|_| ())))}));
                return;
            }
        };
        let sb = sig.to_bytes().to_vec();
        // genuine signature objects: verification under key / message variants
        let verify = |k: &PublicKey, m: &[u8]| -> Result<bool, String> { guard(|| k.verify_signature(m, &sig).is_ok()) };
        sig_evals.fetch_add(1, Ordering::Relaxed);
        match verify(&pk, msg) {
            Ok(true) => {}
            other => ctx.violation_lazy(format!("C17/own-signature-does-not-verify/{class}"), || json!({"key": name, "result": format!("{other:?}")})),
        }
        // independent verification of what the library signed
        let pkp = pk.to_proto();
        if raw_verify_pub(pkp.algorithm, &pkp.key, msg, &sb).is_err() {
            ctx.violation_lazy(format!("C17/signature-not-valid-for-an-independent-verifier/{class}"), || json!({"key": name}));
        }
        let mut bad: Vec<(&str, PublicKey, Vec<u8>)> = vec![];
        let flip_positions: Vec<usize> = if msg.len() <= 64 { (0..msg.len()).collect() } else { vec![0, 1, msg.len() / 2, msg.len() - 1] };
        for p in flip_positions {
            for b in [0u8, 7] {
                let mut m = msg.clone();
                m[p] ^= 1 << b;
                bad.push(("message-bit-flip", pk, m));
            }
        }
        let mut m = msg.clone();
        m.push(0);
        bad.push(("message-extended", pk, m));
        if !msg.is_empty() {
            bad.push(("message-truncated", pk, msg[..msg.len() - 1].to_vec()));
        }
        for (on, okp) in ks.iter() {
            if on != name {
                bad.push(("other-key", okp.public(), msg.clone()));
            }
        }
        for (what, k, m) in bad {
            sig_evals.fetch_add(1, Ordering::Relaxed);
            match verify(&k, &m) {
                Ok(false) => {}
                Ok(true) => ctx.violation_lazy(format!("C17/signature-verifies-after-{what}/{class}"), || json!({"key": name, "what": what})),
                Err(p) => ctx.violation_lazy(format!("C17/panic/{}", panic_site(&p)), || json!({"key": name, "what": what, "panic": p})),
            }
        }
    });

    // malformed signature bytes can only be presented inside a token: every bit flip and length
    // variant of the authority signature of a one-block token, for each root algorithm
    for ra in ALGS {
        use prost::Message;
        let t = run_hist(&[Op::Build { root: ra, next: Alg::Ed, content: "b0", kid: None }]).unwrap();
        let bytes = t.to_vec().unwrap();
        let proto = schema::Biscuit::decode(&bytes[..]).unwrap();
        let sigb = proto.authority.signature.clone();
        let mut variants: Vec<(&str, Vec<u8>)> = bit_flips(&sigb).into_iter().map(|x| ("signature-bit-flip", x)).collect();
        variants.extend(length_variants(&sigb).into_iter().map(|x| ("signature-length", x)));
        variants.par_iter().for_each(|(what, v)| {
            sig_evals.fetch_add(1, Ordering::Relaxed);
            let mut m = proto.clone();
            m.authority.signature = v.clone();
            let vb = m.encode_to_vec();
            match guard(|| biscuit_auth::Biscuit::from(&vb, root(ra).public()).is_ok()) {
                Ok(false) => {}
                Ok(true) => ctx.violation_lazy(format!("C17/malformed-signature-bytes-accepted/{what}/{}", ra.name()), || json!({"signature": hex::encode(v)})),
                Err(p) => ctx.violation_lazy(format!("C17/panic/{}", panic_site(&p)), || json!({"what": what, "panic": p})),
            }
        });
    }

    let n = evals.load(Ordering::Relaxed) + sig_evals.load(Ordering::Relaxed);
    let cov = json!({
        "evaluations": n,
        "distinct_nontrivial": refused.load(Ordering::Relaxed),
        "keys": ks.len(),
        "key_encoding_evaluations": evals.load(Ordering::Relaxed),
        "malformed_encodings_refused": refused.load(Ordering::Relaxed),
        "signature_evaluations": sig_evals.load(Ordering::Relaxed),
        "messages": messages.iter().map(|m| m.len()).collect::<Vec<_>>(),
        "exhaustive": true,
        "samples": samples_out.take(),
        "rule": "for every key of the pool (both algorithms, edge scalars 1 and n-1, all-zero and all-ff seeds): exact round trips through raw bytes, hex, algorithm/hex strings, PEM, DER (explicit and auto-detected algorithm), protobuf and KeyPair loaders; the public key derived through every path equals an independent derivation; every truncation, extension by 1-2 bytes and single-bit flip of raw public bytes and of DER, every length variant of raw private bytes, every single-character substitution / deletion of text forms and PEM, other SEC1 point forms, out-of-range scalars, swapped / missing / unknown algorithm prefixes and protobuf algorithm ids: never a panic, refused or decoded to exactly the key the input spells, never accepted under the other algorithm; signatures: for keys x messages (0 B .. 64 KiB) the signature verifies (also for an independent verifier) and every single-bit flip and length variant of the signature, bit flips / truncation / extension of the message, every other key fail. distinct_nontrivial = malformed encodings refused",
    });
    ctx.finish("fault_enumeration", cov, vec!["ECDSA s-negation verifies under the same key and message by construction: it is C15's concern".into()]);
}

fn a_proto(a: Alg) -> schema::public_key::Algorithm {
    match a {
        Alg::Ed => schema::public_key::Algorithm::Ed25519,
        Alg::P256 => schema::public_key::Algorithm::Secp256r1,
    }
}

fn raw_verify_pub(alg: i32, key: &[u8], msg: &[u8], sig: &[u8]) -> Result<(), String> {
    match alg {
        0 => {
            let kb: [u8; 32] = key.try_into().map_err(|_| "len")?;
            let vk = ed25519_dalek::VerifyingKey::from_bytes(&kb).map_err(|e| e.to_string())?;
            let sb: [u8; 64] = sig.try_into().map_err(|_| "len")?;
            vk.verify_strict(msg, &ed25519_dalek::Signature::from_bytes(&sb)).map_err(|e| e.to_string())
        }
        _ => {
            use p256::ecdsa::signature::Verifier;
            let vk = p256::ecdsa::VerifyingKey::from_sec1_bytes(key).map_err(|e| e.to_string())?;
            let s = p256::ecdsa::Signature::from_der(sig).map_err(|e| e.to_string())?;
            vk.verify(msg, &s).map_err(|e| e.to_string())
        }
    }
}

//! C09 — untrusted bytes never crash or hang the library.
//! Schema-valid adversarial blocks (generic protobuf wire mutation, re-signed by the
//! harness), byte-level faults on every entry point, all short Datalog texts; aborts
//! (stack overflow) and hangs are caught by running text sweeps in child processes.
use crate::common::*;
use crate::tok::*;
use biscuit_auth::builder as b;
use biscuit_auth::format::schema;
use biscuit_auth::{Authorizer, AuthorizerBuilder, AuthorizerLimits, Biscuit, ThirdPartyRequest, UnverifiedBiscuit};
use prost::Message;
use rayon::prelude::*;
use serde_json::json;
use std::convert::TryFrom;
use std::sync::atomic::{AtomicUsize, Ordering};
use std::time::Duration;

// ---------------------------------------------------------------- protobuf wire tree

#[derive(Clone, Debug, PartialEq)]
pub enum Wire {
    Varint(u64),
    Fixed64([u8; 8]),
    Fixed32([u8; 4]),
    Bytes(Vec<u8>),
    Msg(Vec<(u32, Wire)>),
}

fn read_varint(b: &[u8], i: &mut usize) -> Option<u64> {
    let mut v = 0u64;
    let mut shift = 0;
    loop {
        let byte = *b.get(*i)?;
        *i += 1;
        if shift >= 64 {
            return None;
        }
        v |= ((byte & 0x7f) as u64) << shift;
        if byte & 0x80 == 0 {
            return Some(v);
        }
        shift += 7;
    }
}

/// parses a message; length-delimited fields are parsed as sub-messages when `nested(path)` says so
pub fn parse_wire(b: &[u8], path: &mut Vec<u32>, nested: &dyn Fn(&[u32]) -> bool) -> Option<Vec<(u32, Wire)>> {
    let mut i = 0;
    let mut out = vec![];
    while i < b.len() {
        let key = read_varint(b, &mut i)?;
        let (field, wt) = ((key >> 3) as u32, key & 7);
        let w = match wt {
            0 => Wire::Varint(read_varint(b, &mut i)?),
            1 => {
                let v: [u8; 8] = b.get(i..i + 8)?.try_into().ok()?;
                i += 8;
                Wire::Fixed64(v)
            }
            5 => {
                let v: [u8; 4] = b.get(i..i + 4)?.try_into().ok()?;
                i += 4;
                Wire::Fixed32(v)
            }
            2 => {
                let len = read_varint(b, &mut i)? as usize;
                let v = b.get(i..i.checked_add(len)?)?;
                i += len;
                path.push(field);
                let r = if nested(path) { parse_wire(v, path, nested).map(Wire::Msg).unwrap_or(Wire::Bytes(v.to_vec())) } else { Wire::Bytes(v.to_vec()) };
                path.pop();
                r
            }
            _ => return None,
        };
        out.push((field, w));
    }
    Some(out)
}

fn write_varint(mut v: u64, out: &mut Vec<u8>) {
    loop {
        let b = (v & 0x7f) as u8;
        v >>= 7;
        if v == 0 {
            out.push(b);
            return;
        }
        out.push(b | 0x80);
    }
}

pub fn encode_wire(m: &[(u32, Wire)]) -> Vec<u8> {
    let mut out = vec![];
    for (f, w) in m {
        let wt = match w {
            Wire::Varint(_) => 0,
            Wire::Fixed64(_) => 1,
            Wire::Bytes(_) | Wire::Msg(_) => 2,
            Wire::Fixed32(_) => 5,
        };
        write_varint(((*f as u64) << 3) | wt, &mut out);
        match w {
            Wire::Varint(v) => write_varint(*v, &mut out),
            Wire::Fixed64(v) => out.extend_from_slice(v),
            Wire::Fixed32(v) => out.extend_from_slice(v),
            Wire::Bytes(v) => {
                write_varint(v.len() as u64, &mut out);
                out.extend_from_slice(v);
            }
            Wire::Msg(m) => {
                let inner = encode_wire(m);
                write_varint(inner.len() as u64, &mut out);
                out.extend_from_slice(&inner);
            }
        }
    }
    out
}

/// in a `schema::Block`: field 1 (symbols, strings) and field 2 (context) are leaves, as are
/// bytes terms (TermV2 field 5) and public key bytes; everything else length-delimited is a message.
/// Leaves that happen to parse as messages are harmless for mutation purposes but we keep strings intact.
fn block_nested(path: &[u32]) -> bool {
    !(path == [1] || path == [2])
}

/// every single mutation of the tree: (description path, mutated tree)
pub fn wire_mutations(m: &[(u32, Wire)], prefix: &str, out: &mut Vec<(String, Vec<(u32, Wire)>)>, rebuild: &dyn Fn(Vec<(u32, Wire)>) -> Vec<(u32, Wire)>) {
    // ids / tags / versions around every table boundary, the integer extremes, and the boundaries of what a
    // date printer can format (years -9999, -1 / 0, 9999 / 10000 as unsigned reinterpretations)
    const IDS: [u64; 21] = [
        0,
        1,
        27,
        28,
        1023,
        1024,
        1025,
        1030,
        0x7fff_ffff,
        0xffff_ffff,
        0x1_0000_0000,
        u64::MAX,
        i64::MAX as u64,
        i64::MIN as u64,
        253402300799,
        253402300800,
        (-62167219200i64) as u64,
        (-62167219201i64) as u64,
        (-377705116800i64) as u64,
        (-377705116801i64) as u64,
        (-2i64) as u64,
    ];
    for (idx, (f, w)) in m.iter().enumerate() {
        let here = format!("{prefix}/{f}");
        // delete, duplicate
        let mut del = m.to_vec();
        del.remove(idx);
        out.push((format!("{here}:delete"), rebuild(del)));
        let mut dup = m.to_vec();
        dup.insert(idx, (*f, w.clone()));
        out.push((format!("{here}:duplicate"), rebuild(dup)));
        match w {
            Wire::Varint(v) => {
                for id in IDS {
                    if id != *v {
                        let mut x = m.to_vec();
                        x[idx].1 = Wire::Varint(id);
                        out.push((format!("{here}:varint={id}"), rebuild(x)));
                    }
                }
                // wrong wire type for this field
                let mut x = m.to_vec();
                x[idx].1 = Wire::Bytes(vec![1, 2, 3]);
                out.push((format!("{here}:as-bytes"), rebuild(x)));
            }
            Wire::Fixed64(_) | Wire::Fixed32(_) => {
                let mut x = m.to_vec();
                x[idx].1 = Wire::Fixed64([0xff; 8]);
                out.push((format!("{here}:fixed=ff"), rebuild(x)));
            }
            Wire::Bytes(v) => {
                for (name, nv) in [("empty", vec![]), ("one-byte", vec![0xffu8]), ("truncated", v[..v.len() / 2].to_vec()), ("long", vec![0x41; 300]), ("invalid-utf8", vec![0xff, 0xfe, 0xfd]), ("extended", { let mut x = v.clone(); x.push(0); x })] {
                    if nv != *v {
                        let mut x = m.to_vec();
                        x[idx].1 = Wire::Bytes(nv);
                        out.push((format!("{here}:bytes-{name}"), rebuild(x)));
                    }
                }
                let mut x = m.to_vec();
                x[idx].1 = Wire::Varint(7);
                out.push((format!("{here}:as-varint"), rebuild(x)));
            }
            Wire::Msg(inner) => {
                let mut x = m.to_vec();
                x[idx].1 = Wire::Msg(vec![]);
                out.push((format!("{here}:empty-message"), rebuild(x)));
                // an unknown field inside
                let mut y = inner.clone();
                y.push((15, Wire::Varint(1)));
                let mut x = m.to_vec();
                x[idx].1 = Wire::Msg(y);
                out.push((format!("{here}:unknown-field"), rebuild(x)));
                let m2 = m.to_vec();
                let rb = move |ni: Vec<(u32, Wire)>| {
                    let mut x = m2.clone();
                    x[idx].1 = Wire::Msg(ni);
                    rebuild(x)
                };
                wire_mutations(inner, &here, out, &rb);
            }
        }
    }
}

// ---------------------------------------------------------------- sweeps

fn tight() -> AuthorizerLimits {
    AuthorizerLimits { max_facts: 8, max_iterations: 2, max_time: Duration::from_secs(60) }
}

/// every public operation on a token obtained from untrusted data; returns Err(panic message)
pub fn sweep_biscuit(t: &Biscuit) -> Result<usize, String> {
    guard(|| {
        let mut n = 0;
        let _ = t.print();
        let _ = format!("{t}");
        let bc = t.block_count();
        for i in (0..bc + 3).chain([usize::MAX, usize::MAX - 1]) {
            let _ = t.print_block_source(i);
            let _ = t.block_version(i);
            let _ = t.block_symbols(i);
            let _ = t.block_public_keys(i);
            let _ = t.block_external_key(i);
            n += 5;
        }
        let _ = t.context();
        let _ = t.revocation_identifiers();
        let _ = t.external_public_keys();
        let _ = t.root_key_id();
        let _ = t.container();
        let _ = t.to_vec();
        let _ = t.to_base64();
        let _ = t.serialized_size();
        let _ = t.seal().map(|s| s.to_vec());
        let _ = t.append_with_keypair(&key(Alg::Ed, ROLE_NEXT, 5), block_of("b0")).map(|x| x.print());
        let _ = t.third_party_request().map(|r| r.serialize());
        n += 12;
        for limits in [crate::c04::big_limits(), tight()] {
            if let Ok(mut a) = t.authorizer() {
                let _ = a.run();
                n += sweep_authorizer(&mut a);
            }
            for code in ["allow if true;", "check if right($a, $b); q($x) <- s($x); allow if q($x); deny if true;"] {
                if let Ok(ab) = AuthorizerBuilder::new().code(code) {
                    if let Ok(mut a) = ab.limits(limits.clone()).build(t) {
                        n += sweep_authorizer(&mut a);
                    }
                }
            }
        }
        n
    })
}

pub fn sweep_authorizer(a: &mut Authorizer) -> usize {
    let _ = a.print_world();
    let _ = a.dump();
    let _ = a.dump_code();
    let _ = a.snapshot();
    let _ = a.to_raw_snapshot().map(|s| Authorizer::from_raw_snapshot(&s).map(|mut r| r.authorize()));
    let _ = a.to_base64_snapshot();
    let _ = a.save().map(|p| p.serialize());
    let _ = a.limits();
    let _ = a.iterations();
    let _ = a.fact_count();
    let _ = a.authorize();
    let _: Result<Vec<b::Fact>, _> = a.query("q($x) <- s($x)");
    let _: Result<Vec<b::Fact>, _> = a.query_all("q($x, $y) <- right($x, $y)");
    let _ = a.print_world();
    let _ = a.dump_code();
    let _ = a.to_raw_snapshot();
    let _ = format!("{a}");
    let _ = a.execution_time();
    18
}

pub fn sweep_unverified(u: &UnverifiedBiscuit) -> Result<usize, String> {
    guard(|| {
        let bc = u.block_count();
        let mut n = 0;
        for i in (0..bc + 3).chain([usize::MAX]) {
            let _ = u.print_block_source(i);
            let _ = u.block_version(i);
            n += 2;
        }
        let _ = u.revocation_identifiers();
        let _ = u.external_public_keys();
        let _ = u.root_key_id();
        let _ = u.to_vec();
        let _ = u.to_base64();
        let _ = u.seal().map(|s| s.to_vec());
        let _ = u.append_with_keypair(&key(Alg::Ed, ROLE_NEXT, 5), block_of("b0")).map(|x| x.to_vec());
        let _ = u.third_party_request().map(|r| r.serialize());
        let _ = u.clone().verify(root(Alg::Ed).public()).map(|b| b.print());
        n + 9
    })
}

/// seed blocks: one per construct
fn seed_sources() -> Vec<(&'static str, String)> {
    let k1s = pk_str(&k1().public());
    let k2s = pk_str(&k2().public());
    vec![
        ("facts-all-term-types", r#"v(1, "a", 2020-01-01T00:00:00Z, hex:01ff, true, {1, 2}, null, [1, "x"], {"k": 1, 2: null}); right("file1", "read");"#.to_string()),
        ("rules", r#"s("x"); q($x) <- s($x); t($x, $z) <- e($x, $y), e($y, $z), $x < $z;"#.to_string()),
        ("checks", r#"check if s($x), $x.starts_with("a"); check all s($x), $x.length() > 0; reject if s("bad");"#.to_string()),
        ("scopes", format!("check if s($x) trusting authority, {k1s}; r($x) <- s($x) trusting previous, {k2s};")),
        ("operators", r#"check if 1 + 2 * 3 - 4 / 2 === 5, "a" + "b" == "ab", {1}.union({2}).contains(1), !false, (1 | 2) ^ 3 === 0, [1].get(0) == 1, 1.type() == "integer";"#.to_string()),
        ("closures", r#"check if [1, 2].all($p -> $p > 0 && [3].any($q -> $q > $p)), true || false, {"a": 1}.any($kv -> $kv.get(0) == "a");"#.to_string()),
        ("extern", r#"check if 1.extern::f(), "a".extern::g("b") == 2;"#.to_string()),
    ]
}

fn block_bytes_of(src: &str) -> Vec<u8> {
    let t = b::BiscuitBuilder::new()
        .code(src)
        .unwrap_or_else(|e| panic!("seed `{src}`: {e:?}"))
        .build_with_key_pair(&root(Alg::Ed), biscuit_auth::datalog::SymbolTable::new(), &key(Alg::Ed, ROLE_NEXT, 0))
        .unwrap();
    schema::Biscuit::decode(&t.to_vec().unwrap()[..]).unwrap().authority.block
}

fn sign_as(position: &str, payload: Vec<u8>) -> Vec<u8> {
    let plain = block_bytes_of("base(0);");
    match position {
        "authority" => sign_chain(&root(Alg::Ed), vec![RawBlock { payload, next: key(Alg::Ed, ROLE_NEXT, 0), ext: None, sig_version: 1 }], false, None),
        "block" => sign_chain(&root(Alg::Ed), vec![RawBlock { payload: plain, next: key(Alg::Ed, ROLE_NEXT, 0), ext: None, sig_version: 1 }, RawBlock { payload, next: key(Alg::Ed, ROLE_NEXT, 1), ext: None, sig_version: 1 }], false, None),
        _ => sign_chain(&root(Alg::Ed), vec![RawBlock { payload: plain, next: key(Alg::Ed, ROLE_NEXT, 0), ext: None, sig_version: 1 }, RawBlock { payload, next: key(Alg::Ed, ROLE_NEXT, 1), ext: Some(k1()), sig_version: 1 }], false, None),
    }
}

/// loads a signed token through every verified / unverified path and sweeps the objects
fn load_and_sweep(ctx: &Ctx, family: &str, what: &str, bytes: &[u8], counters: &(AtomicUsize, AtomicUsize)) {
    counters.0.fetch_add(1, Ordering::Relaxed);
    let rootk = root(Alg::Ed).public();
    let report = |site: &str, p: &str| ctx.violation_lazy(format!("C09/panic/{}", panic_site(p)), || json!({"family": family, "mutation": what, "entry_point": site, "panic": p, "input_hex": hex::encode(bytes)}));
    match guard(|| Biscuit::from(bytes, rootk)) {
        Err(p) => report("Biscuit::from", &p),
        Ok(Ok(t)) => {
            counters.1.fetch_add(1, Ordering::Relaxed);
            if let Err(p) = sweep_biscuit(&t) {
                report("operations on Biscuit::from(..)", &p);
            }
        }
        Ok(Err(_)) => {}
    }
    match guard(|| Biscuit::unsafe_deprecated_deserialize(bytes, rootk)) {
        Err(p) => report("Biscuit::unsafe_deprecated_deserialize", &p),
        Ok(Ok(t)) => {
            if let Err(p) = guard(|| {
                let _ = t.print();
                let _ = t.authorizer().map(|mut a| a.authorize());
            }) {
                report("operations on unsafe_deprecated_deserialize(..)", &p);
            }
        }
        Ok(Err(_)) => {}
    }
    match guard(|| UnverifiedBiscuit::from(bytes)) {
        Err(p) => report("UnverifiedBiscuit::from", &p),
        Ok(Ok(u)) => {
            if let Err(p) = sweep_unverified(&u) {
                report("operations on UnverifiedBiscuit::from(..)", &p);
            }
        }
        Ok(Err(_)) => {}
    }
    let b64 = base64::encode_config(bytes, base64::URL_SAFE);
    if let Err(p) = guard(|| {
        let _ = Biscuit::from_base64(&b64, rootk);
        let _ = UnverifiedBiscuit::from_base64(&b64);
        let _ = UnverifiedBiscuit::unsafe_deprecated_deserialize(bytes);
    }) {
        report("base64 / deprecated loaders", &p);
    }
}

fn byte_faults(seed: &[u8]) -> Vec<Vec<u8>> {
    let mut out: Vec<Vec<u8>> = (0..seed.len()).map(|n| seed[..n].to_vec()).collect();
    for i in 0..seed.len() {
        for v in [0x00u8, 0x01, 0x7f, 0x80, 0xff] {
            if seed[i] != v {
                let mut x = seed.to_vec();
                x[i] = v;
                out.push(x);
            }
        }
    }
    out
}

// ---------------------------------------------------------------- text sweep (child process)

const TEXT_ALPHABET: [&str; 21] = ["a", "1", "\"", "\\", "$", "{", "}", "[", "]", "(", ")", ",", ";", ".", "!", "<", "-", ":", "/", " ", "é"];

fn parse_everything(s: &str) {
    let _ = b::BlockBuilder::new().code(s).map(|bb| bb.to_string());
    let _ = AuthorizerBuilder::new().code(s).map(|ab| ab.dump_code());
    let _ = b::Fact::try_from(s).map(|x| x.to_string());
    let _ = b::Rule::try_from(s).map(|x| x.to_string());
    let _ = b::Check::try_from(s).map(|x| x.to_string());
    let _ = b::Policy::try_from(s).map(|x| x.to_string());
    let _ = biscuit_parser::parser::parse_source(s);
    let _ = biscuit_parser::parser::parse_block_source(s);
    let _ = s.parse::<biscuit_auth::PublicKey>();
    let _ = s.parse::<biscuit_auth::PrivateKey>();
}

/// child: `vharness C09-text <first symbol index> <max len>`: prints `ok <count>` or dies
pub fn text_child(first: usize, max_len: usize) {
    let n = TEXT_ALPHABET.len();
    let mut idx = vec![first];
    let mut count = 0u64;
    let mut last = String::new();
    loop {
        let s: String = idx.iter().map(|i| TEXT_ALPHABET[*i]).collect();
        last.clear();
        last.push_str(&s);
        if let Err(p) = guard(|| parse_everything(&s)) {
            println!("PANIC\t{}\t{}", panic_site(&p), s.escape_debug());
        }
        // keyword prefixes
        if idx.len() <= 3 {
            for kw in ["check if ", "check all ", "reject if ", "allow if ", "deny if ", "f(", "r($x) <- ", "trusting ", "f(1) trusting ed25519/", "check if f($x), "] {
                let t = format!("{kw}{s}");
                if let Err(p) = guard(|| parse_everything(&t)) {
                    println!("PANIC\t{}\t{}", panic_site(&p), t.escape_debug());
                }
                count += 1;
            }
        }
        count += 1;
        if idx.len() < max_len {
            idx.push(0);
        } else {
            loop {
                if idx.len() == 1 {
                    println!("ok\t{count}");
                    return;
                }
                let l = idx.len() - 1;
                if idx[l] + 1 < n {
                    idx[l] += 1;
                    break;
                }
                idx.pop();
            }
        }
    }
}

/// child: one nesting probe
pub fn probe_child(kind: &str, n: usize) {
    let s = match kind {
        "parens" => format!("check if {}1{}", "(".repeat(n), ")".repeat(n)),
        "negations" => format!("check if {}true", "!".repeat(n)),
        "arrays" => format!("f({}1{})", "[".repeat(n), "]".repeat(n)),
        "maps" => format!("f({}1{})", "{\"a\":".repeat(n), "}".repeat(n)),
        "closures" => format!("check if {}true{}", "[1].any($x -> ".repeat(n), ")".repeat(n)),
        "sets-unclosed" => format!("f({}", "{".repeat(n)),
        "methods" => format!("check if 1{}", ".length()".repeat(n)),
        "ors" => format!("check if true{}", " || true".repeat(n)),
        _ => String::new(),
    };
    match guard(|| {
        parse_everything(&s);
        // a parsed deep expression is also built, printed, serialized and evaluated
        if let Ok(bb) = b::BiscuitBuilder::new().code(&s) {
            let _ = bb.to_string();
            if let Ok(t) = bb.build_with_key_pair(&root(Alg::Ed), biscuit_auth::datalog::SymbolTable::new(), &key(Alg::Ed, ROLE_NEXT, 0)) {
                let _ = t.print();
                if let Ok(v) = t.to_vec() {
                    if let Ok(t2) = Biscuit::from(&v, root(Alg::Ed).public()) {
                        let _ = sweep_biscuit(&t2);
                    }
                }
            }
        }
    }) {
        Ok(()) => println!("ok"),
        Err(p) => println!("PANIC\t{}", panic_site(&p)),
    }
}

fn run_child(args: &[String], timeout: Duration) -> (Option<i32>, String, bool) {
    let exe = std::env::current_exe().unwrap();
    let mut child = std::process::Command::new(exe).args(args).stdout(std::process::Stdio::piped()).stderr(std::process::Stdio::null()).spawn().expect("spawn child");
    let start = std::time::Instant::now();
    loop {
        match child.try_wait() {
            Ok(Some(st)) => {
                let mut out = String::new();
                use std::io::Read;
                if let Some(mut o) = child.stdout.take() {
                    let _ = o.read_to_string(&mut out);
                }
                return (st.code(), out, false);
            }
            Ok(None) => {
                if start.elapsed() > timeout {
                    let _ = child.kill();
                    let _ = child.wait();
                    return (None, String::new(), true);
                }
                std::thread::sleep(Duration::from_millis(20));
            }
            Err(_) => return (None, String::new(), false),
        }
    }
}

pub fn run(tier: Tier) {
    let ctx = Ctx::new("C09", tier);
    let counters = (AtomicUsize::new(0), AtomicUsize::new(0));
    let samples_out = Samples::new(8);

    // ---------------- (A) schema-valid adversarial blocks, properly signed
    let seeds = seed_sources();
    let mut n_mut = 0usize;
    for (sname, src) in &seeds {
        let payload = block_bytes_of(src);
        let tree = parse_wire(&payload, &mut vec![], &block_nested).expect("seed block parses");
        let mut muts: Vec<(String, Vec<(u32, Wire)>)> = vec![];
        wire_mutations(&tree, "", &mut muts, &|x| x);
        n_mut += muts.len();
        samples_out.push(|| json!({"seed_block": sname, "source": src, "wire_mutations": muts.len(), "example": muts[muts.len() / 3].0}));
        muts.par_iter().for_each(|(desc, t)| {
            let p = encode_wire(t);
            for pos in ["authority", "block", "third-party"] {
                // third-party position for one mutation in three (same decoding path, different tables)
                if pos == "third-party" && desc.len() % 3 != 0 {
                    continue;
                }
                let bytes = sign_as(pos, p.clone());
                load_and_sweep(&ctx, &format!("signed-block/{sname}/{pos}"), desc, &bytes, &counters);
            }
        });
    }
    // (A2) every operator applied to every pair (unary: every single one) of edge operands, as a check of an
    // attenuation block built directly in protobuf, signed, loaded, printed and authorized
    let op_cases = AtomicUsize::new(0);
    {
        use schema::term_v2::Content as C;
        let t = |c: C| schema::TermV2 { content: Some(c) };
        let int = |i: i64| t(C::Integer(i));
        let operands: Vec<(&str, schema::TermV2)> = vec![
            ("i64::MIN", int(i64::MIN)),
            ("-1", int(-1)),
            ("0", int(0)),
            ("1", int(1)),
            ("2", int(2)),
            ("i64::MAX", int(i64::MAX)),
            ("str", t(C::String(1024))),
            ("str-default-symbol", t(C::String(0))),
            ("date-0", t(C::Date(0))),
            ("date-max", t(C::Date(u64::MAX))),
            ("date-year--1", t(C::Date((-62167219201i64) as u64))),
            ("bytes-empty", t(C::Bytes(vec![]))),
            ("bytes", t(C::Bytes(vec![0, 255]))),
            ("true", t(C::Bool(true))),
            ("false", t(C::Bool(false))),
            ("null", t(C::Null(schema::Empty {}))),
            ("set-empty", t(C::Set(schema::TermSet { set: vec![] }))),
            ("set-ints", t(C::Set(schema::TermSet { set: vec![int(i64::MIN), int(-1)] }))),
            ("array-empty", t(C::Array(schema::Array { array: vec![] }))),
            ("array-min", t(C::Array(schema::Array { array: vec![int(i64::MIN), int(-1)] }))),
            ("map-empty", t(C::Map(schema::Map { entries: vec![] }))),
            ("map", t(C::Map(schema::Map { entries: vec![schema::MapEntry { key: schema::MapKey { content: Some(schema::map_key::Content::Integer(i64::MIN)) }, value: int(-1) }] }))),
        ];
        let value = |x: &schema::TermV2| schema::Op { content: Some(schema::op::Content::Value(x.clone())) };
        let mk_block = |ops: Vec<schema::Op>| {
            schema::Block {
                symbols: vec!["opsym".into(), "f".into()],
                context: None,
                version: Some(6),
                facts_v2: vec![],
                rules_v2: vec![],
                checks_v2: vec![schema::CheckV2 { queries: vec![schema::RuleV2 { head: schema::PredicateV2 { name: 1024, terms: vec![] }, body: vec![], expressions: vec![schema::ExpressionV2 { ops }], scope: vec![] }], kind: None }],
                scope: vec![],
                public_keys: vec![],
            }
            .encode_to_vec()
        };
        let mut blocks: Vec<(String, Vec<u8>)> = vec![];
        for kind in 0..=28i32 {
            let ffi = if kind == 28 { Some(1025u64) } else { None };
            for (an, a) in &operands {
                for (bn, b) in &operands {
                    let second = if matches!(kind, 23..=26) {
                        // lazy operators and all / any take a closure; the closure body returns the second operand
                        // (all / any get a one-parameter closure comparing with it)
                        let params = if kind >= 25 { vec![7u32] } else { vec![] };
                        let body = if kind >= 25 { vec![schema::Op { content: Some(schema::op::Content::Value(t(C::Variable(7)))) }, value(b), schema::Op { content: Some(schema::op::Content::Binary(schema::OpBinary { kind: 12, ffi_name: None })) }] } else { vec![value(b)] };
                        schema::Op { content: Some(schema::op::Content::Closure(schema::OpClosure { params, ops: body })) }
                    } else {
                        value(b)
                    };
                    blocks.push((format!("binary-{kind}({an}, {bn})"), mk_block(vec![value(a), second, schema::Op { content: Some(schema::op::Content::Binary(schema::OpBinary { kind, ffi_name: ffi })) }])));
                }
            }
        }
        for kind in 0..=4i32 {
            let ffi = if kind == 4 { Some(1025u64) } else { None };
            for (an, a) in &operands {
                blocks.push((format!("unary-{kind}({an})"), mk_block(vec![value(a), schema::Op { content: Some(schema::op::Content::Unary(schema::OpUnary { kind, ffi_name: ffi })) }])));
                // an arithmetic result fed to the unary, and the unary's result fed to arithmetic
                blocks.push((format!("unary-{kind}({an} - 1)"), mk_block(vec![value(a), value(&int(1)), schema::Op { content: Some(schema::op::Content::Binary(schema::OpBinary { kind: 10, ffi_name: None })) }, schema::Op { content: Some(schema::op::Content::Unary(schema::OpUnary { kind, ffi_name: ffi })) }])));
            }
        }
        blocks.par_iter().for_each(|(desc, payload)| {
            op_cases.fetch_add(1, Ordering::Relaxed);
            let bytes = sign_as("block", payload.clone());
            load_and_sweep(&ctx, "signed-block/operator-on-edge-operands", desc, &bytes, &counters);
        });
    }
    // deep nesting built directly in protobuf (beyond what the builders produce)
    let mut nest_cases = 0;
    for depth in [1usize, 16, 32, 49, 50, 63, 64, 99, 100, 101, 200, 1000] {
        for kind in ["array", "map", "closure", "set"] {
            nest_cases += 1;
            let mut term = schema::TermV2 { content: Some(schema::term_v2::Content::Integer(1)) };
            let mut ops: Vec<schema::Op> = vec![schema::Op { content: Some(schema::op::Content::Value(schema::TermV2 { content: Some(schema::term_v2::Content::Bool(true)) })) }];
            for _ in 0..depth {
                match kind {
                    "array" => term = schema::TermV2 { content: Some(schema::term_v2::Content::Array(schema::Array { array: vec![term] })) },
                    "set" => term = schema::TermV2 { content: Some(schema::term_v2::Content::Set(schema::TermSet { set: vec![term] })) },
                    "map" => term = schema::TermV2 { content: Some(schema::term_v2::Content::Map(schema::Map { entries: vec![schema::MapEntry { key: schema::MapKey { content: Some(schema::map_key::Content::Integer(1)) }, value: term }] })) },
                    _ => ops = vec![schema::Op { content: Some(schema::op::Content::Closure(schema::OpClosure { params: vec![], ops })) }],
                }
            }
            let blk = schema::Block {
                symbols: vec![],
                context: None,
                version: Some(6),
                facts_v2: if kind != "closure" { vec![schema::FactV2 { predicate: schema::PredicateV2 { name: 1024, terms: vec![term] } }] } else { vec![] },
                rules_v2: vec![],
                checks_v2: if kind == "closure" { vec![schema::CheckV2 { queries: vec![schema::RuleV2 { head: schema::PredicateV2 { name: 1024, terms: vec![] }, body: vec![], expressions: vec![schema::ExpressionV2 { ops }], scope: vec![] }], kind: None }] } else { vec![] },
                scope: vec![],
                public_keys: vec![],
            };
            let mut blk = blk;
            blk.symbols.push("deep".into());
            let bytes = sign_as("authority", blk.encode_to_vec());
            // deep structures can overflow the stack: isolate in a child process
            let path = std::env::temp_dir().join(format!("vharness-c09-{}-{kind}-{depth}.bin", std::process::id()));
            std::fs::write(&path, &bytes).unwrap();
            let (code, out, hung) = run_child(&["C09-load".into(), path.to_string_lossy().to_string()], Duration::from_secs(20));
            let _ = std::fs::remove_file(&path);
            if hung {
                ctx.violation(format!("C09/hang/nested-{kind}"), json!({"depth": depth}));
            } else if code != Some(0) {
                ctx.violation(format!("C09/abort/nested-{kind}-in-signed-block"), json!({"depth": depth, "exit": code, "output": out}));
            } else if let Some(l) = out.lines().find(|l| l.starts_with("PANIC")) {
                ctx.violation(format!("C09/panic/{}", l.split('\t').nth(1).unwrap_or("")), json!({"nested": kind, "depth": depth}));
            }
        }
    }

    // ---------------- (B) byte-level faults on every entry point
    let byte_cases = AtomicUsize::new(0);
    let token = {
        let t = run_hist(&[Op::Build { root: Alg::Ed, next: Alg::Ed, content: "b1", kid: Some(3) }, Op::AppendTp { ext: Alg::P256, next: Alg::Ed, content: "t0" }, Op::Append { next: Alg::P256, content: "b3" }]).unwrap();
        t.to_vec().unwrap()
    };
    byte_faults(&token).par_iter().for_each(|v| {
        byte_cases.fetch_add(1, Ordering::Relaxed);
        load_and_sweep(&ctx, "byte-fault/token", "byte", v, &counters);
    });
    // the same faults with the wire faults applied to the *unsigned* view: block payload of an unverified token
    {
        let proto = schema::Biscuit::decode(&token[..]).unwrap();
        let faults = byte_faults(&proto.authority.block);
        faults.par_iter().for_each(|f| {
            byte_cases.fetch_add(1, Ordering::Relaxed);
            let bytes = sign_as("authority", f.clone());
            load_and_sweep(&ctx, "byte-fault/signed-authority-payload", "byte", &bytes, &counters);
        });
    }
    // third-party request / response
    let (req_bytes, resp_bytes, carrier) = {
        let t = match run_hist(&[Op::Build { root: Alg::Ed, next: Alg::Ed, content: "b0", kid: None }]).unwrap() {
            Tok::V(b) => b,
            _ => unreachable!(),
        };
        let req = t.third_party_request().unwrap();
        let rb = req.serialize().unwrap();
        let resp = ThirdPartyRequest::deserialize(&rb).unwrap().create_block(&k1().private(), block_of("t0")).unwrap().serialize().unwrap();
        (rb, resp, t)
    };
    byte_faults(&req_bytes).par_iter().for_each(|v| {
        byte_cases.fetch_add(1, Ordering::Relaxed);
        if let Err(p) = guard(|| {
            if let Ok(r) = ThirdPartyRequest::deserialize(v) {
                let _ = r.serialize();
                let _ = r.create_block(&k1().private(), block_of("t1")).map(|b| b.serialize());
            }
            let _ = ThirdPartyRequest::deserialize_base64(base64::encode_config(v, base64::URL_SAFE));
        }) {
            ctx.violation_lazy(format!("C09/panic/{}", panic_site(&p)), || json!({"entry_point": "ThirdPartyRequest::deserialize", "input_hex": hex::encode(v), "panic": p}));
        }
    });
    let carrier_u = UnverifiedBiscuit::from(carrier.to_vec().unwrap()).unwrap();
    let mut resp_variants = byte_faults(&resp_bytes);
    // schema-valid adversarial response payloads
    {
        let c = schema::ThirdPartyBlockContents::decode(&resp_bytes[..]).unwrap();
        let tree = parse_wire(&c.payload, &mut vec![], &block_nested).unwrap();
        let mut muts = vec![];
        wire_mutations(&tree, "", &mut muts, &|x| x);
        for (_, t) in muts.into_iter().step_by(tier.pick(3, 1)) {
            let mut m = c.clone();
            m.payload = encode_wire(&t);
            resp_variants.push(m.encode_to_vec());
        }
    }
    resp_variants.par_iter().for_each(|v| {
        byte_cases.fetch_add(1, Ordering::Relaxed);
        if let Err(p) = guard(|| {
            if let Ok(u) = carrier_u.append_third_party_with_keypair(v, key(Alg::Ed, ROLE_NEXT, 4)) {
                let _ = sweep_unverified(&u);
            }
            let _ = carrier_u.append_third_party_base64(base64::encode_config(v, base64::URL_SAFE));
        }) {
            ctx.violation_lazy(format!("C09/panic/{}", panic_site(&p)), || json!({"entry_point": "UnverifiedBiscuit::append_third_party", "input_hex": hex::encode(v), "panic": p}));
        }
    });
    // authorizer snapshots and policies
    let (snap, bsnap, pol) = {
        let mut a = AuthorizerBuilder::new().code(r#"s("x"); q($x) <- s($x); check if q("x"); allow if true;"#).unwrap().build(&carrier).unwrap();
        let _ = a.authorize();
        let snap = a.to_raw_snapshot().unwrap();
        let bsnap = AuthorizerBuilder::new().code(r#"s("x"); check if s($x); allow if true;"#).unwrap().to_raw_snapshot().unwrap();
        let pol = a.save().unwrap().serialize().unwrap();
        (snap, bsnap, pol)
    };
    let mut snap_variants = byte_faults(&snap);
    {
        // schema-valid adversarial snapshots: generic wire mutation of the whole message
        let tree = parse_wire(&snap, &mut vec![], &|p: &[u32]| !(p.len() >= 2 && p[p.len() - 1] == 1 && p[p.len() - 2] == 1)).unwrap_or_default();
        let mut muts = vec![];
        wire_mutations(&tree, "", &mut muts, &|x| x);
        for (_, t) in muts {
            snap_variants.push(encode_wire(&t));
        }
    }
    snap_variants.par_iter().for_each(|v| {
        byte_cases.fetch_add(1, Ordering::Relaxed);
        if let Err(p) = guard(|| {
            if let Ok(mut a) = Authorizer::from_raw_snapshot(v) {
                sweep_authorizer(&mut a);
            }
            let _ = Authorizer::from_base64_snapshot(&base64::encode_config(v, base64::URL_SAFE));
            let _ = AuthorizerBuilder::from_raw_snapshot(v).map(|ab| ab.build_unauthenticated().map(|mut a| a.authorize()));
        }) {
            ctx.violation_lazy(format!("C09/panic/{}", panic_site(&p)), || json!({"entry_point": "Authorizer::from_raw_snapshot", "input_hex": hex::encode(v), "panic": p}));
        }
    });
    byte_faults(&bsnap).par_iter().for_each(|v| {
        byte_cases.fetch_add(1, Ordering::Relaxed);
        if let Err(p) = guard(|| {
            let _ = AuthorizerBuilder::from_raw_snapshot(v).map(|ab| {
                let _ = ab.dump_code();
                ab.build(&carrier).map(|mut a| sweep_authorizer(&mut a))
            });
            let _ = AuthorizerBuilder::from_base64_snapshot(&base64::encode_config(v, base64::URL_SAFE));
        }) {
            ctx.violation_lazy(format!("C09/panic/{}", panic_site(&p)), || json!({"entry_point": "AuthorizerBuilder::from_raw_snapshot", "input_hex": hex::encode(v), "panic": p}));
        }
    });
    let mut pol_variants = byte_faults(&pol);
    {
        let tree = parse_wire(&pol, &mut vec![], &|p: &[u32]| p != [1]).unwrap_or_default();
        let mut muts = vec![];
        wire_mutations(&tree, "", &mut muts, &|x| x);
        for (_, t) in muts {
            pol_variants.push(encode_wire(&t));
        }
    }
    pol_variants.par_iter().for_each(|v| {
        byte_cases.fetch_add(1, Ordering::Relaxed);
        if let Err(p) = guard(|| {
            if let Ok(mut a) = Authorizer::from(v) {
                sweep_authorizer(&mut a);
            }
        }) {
            ctx.violation_lazy(format!("C09/panic/{}", panic_site(&p)), || json!({"entry_point": "Authorizer::from (policies)", "input_hex": hex::encode(v), "panic": p}));
        }
    });

    // ---------------- (C) Datalog text: all short strings (children), keyword prefixes, nesting probes
    let max_len = tier.pick(4, 5);
    let text_total = AtomicUsize::new(0);
    (0..TEXT_ALPHABET.len()).into_par_iter().for_each(|first| {
        let (code, out, hung) = run_child(&["C09-text".into(), first.to_string(), max_len.to_string()], Duration::from_secs(tier.pick(120, 1200)));
        if hung {
            ctx.violation(format!("C09/hang/text-sweep"), json!({"first_symbol": TEXT_ALPHABET[first]}));
            return;
        }
        for l in out.lines() {
            let parts: Vec<&str> = l.split('\t').collect();
            match parts.first() {
                Some(&"PANIC") => ctx.violation_lazy(format!("C09/panic/{}", parts.get(1).unwrap_or(&"")), || json!({"entry_point": "Datalog source", "text": parts.get(2)})),
                Some(&"ok") => {
                    text_total.fetch_add(parts.get(1).and_then(|c| c.parse::<usize>().ok()).unwrap_or(0), Ordering::Relaxed);
                }
                _ => {}
            }
        }
        if code != Some(0) {
            ctx.violation(format!("C09/abort/text-sweep"), json!({"first_symbol": TEXT_ALPHABET[first], "exit": code}));
        }
    });
    let mut probes = 0;
    for kind in ["parens", "negations", "arrays", "maps", "closures", "sets-unclosed", "methods", "ors"] {
        for n in [10usize, 100, 1000, 10_000, 100_000] {
            probes += 1;
            let (code, out, hung) = run_child(&["C09-probe".into(), kind.into(), n.to_string()], Duration::from_secs(60));
            if hung {
                ctx.violation(format!("C09/hang/nesting-probe/{kind}"), json!({"n": n}));
            } else if code != Some(0) {
                ctx.violation(format!("C09/abort/nesting-probe/{kind}"), json!({"n": n, "exit_code": code, "note": "process died (stack overflow / abort)"}));
            } else if let Some(l) = out.lines().find(|l| l.starts_with("PANIC")) {
                ctx.violation(format!("C09/panic/{}", l.split('\t').nth(1).unwrap_or("")), json!({"probe": kind, "n": n}));
            }
        }
    }
    // scope keys in source text: every length and non-point bytes
    let mut key_texts = 0;
    for alg in ["ed25519", "secp256r1", "rsa", ""] {
        for len in 0..36usize {
            for fill in ["00", "ff", "02", "a"] {
                key_texts += 1;
                let hexs = fill.repeat(len);
                for src in [format!("check if f($x) trusting {alg}/{hexs};"), format!("r($x) <- f($x) trusting {alg}/{hexs};"), format!("trusting {alg}/{hexs}; f(1);"), format!("allow if true trusting {alg}/{hexs};")] {
                    if let Err(p) = guard(|| parse_everything(&src)) {
                        ctx.violation_lazy(format!("C09/panic/{}", panic_site(&p)), || json!({"entry_point": "Datalog source", "text": src, "panic": p}));
                    }
                }
            }
        }
    }

    let loads = counters.0.load(Ordering::Relaxed);
    let n = loads + byte_cases.load(Ordering::Relaxed) + text_total.load(Ordering::Relaxed) + probes + key_texts + nest_cases;
    let cov = json!({
        "evaluations": n,
        "distinct_nontrivial": counters.1.load(Ordering::Relaxed),
        "seed_blocks": seeds.len(),
        "operator_x_edge_operand_blocks": op_cases.load(Ordering::Relaxed),
        "wire_mutations_of_seed_blocks": n_mut,
        "signed_tokens_loaded": loads,
        "of_which_accepted_and_fully_swept": counters.1.load(Ordering::Relaxed),
        "deep_nesting_cases_in_signed_blocks": nest_cases,
        "byte_level_cases (tokens, payloads, requests, responses, snapshots, policies)": byte_cases.load(Ordering::Relaxed),
        "datalog_texts": text_total.load(Ordering::Relaxed),
        "text_alphabet": TEXT_ALPHABET,
        "text_max_length": max_len,
        "nesting_probes": probes,
        "scope_key_texts": key_texts,
        "exhaustive": true,
        "samples": samples_out.take(),
        "rule": "(A2) every binary operator x every ordered pair, and every unary operator x every one, of 22 edge operands (integer extremes, strings, dates at the formatting boundaries, bytes, booleans, null, empty and extreme collections) as a check of a signed attenuation block, loaded, printed and authorized; (A) for each of 7 seed blocks (all term types, rules, checks of the three kinds, scopes, every operator class, closures, extern calls) every single mutation of the protobuf wire tree (each varint -> 21 adversarial values (ids / tags / versions around table boundaries, integer extremes, date formatting boundaries), each length-delimited field -> empty / truncated / long / invalid UTF-8 / wrong wire type, each sub-message -> empty / unknown field, delete and duplicate of every field), re-signed by the harness as authority / block / third-party block, loaded through every loader, and every public operation run on the result (printing, all accessors with indices 0..n+2 and usize::MAX, seal, append, third-party request, authorizers under default-like and tight limits: run, authorize, query, dump, snapshot round trip, save); deep nesting (1..1000) of arrays / maps / sets / closures built directly in protobuf, in child processes; (B) every truncation and every byte substituted by 00/01/7f/80/ff of a 3-block token, of a signed payload, of third-party requests / responses, authorizer snapshots, builder snapshots and policies (+ wire mutations of those messages); (C) every string up to the length bound over a 21-symbol alphabet through every text entry point (plus 10 keyword prefixes), 8 nesting probes x {10..100000}, scope keys of every length. Oracle: no panic (catch_unwind), no abort (child exit status), no hang (wall cap 4-6 orders of magnitude above normal). distinct_nontrivial = adversarial signed tokens that were accepted and fully swept",
    });
    ctx.finish("fault_enumeration", cov, vec!["inputs beyond these bounds and memory exhaustion by multi-megabyte inputs are not covered".into(), "hang cap: 20-1200 s per child for work that normally takes milliseconds to seconds".into()]);
}

/// child: load one signed token from a file and sweep it
pub fn load_child(path: &str) {
    let bytes = std::fs::read(path).unwrap_or_default();
    let r = guard(|| {
        if let Ok(t) = Biscuit::from(&bytes, root(Alg::Ed).public()) {
            if let Err(p) = sweep_biscuit(&t) {
                println!("PANIC\t{}", panic_site(&p));
            }
        }
        if let Ok(u) = UnverifiedBiscuit::from(&bytes) {
            if let Err(p) = sweep_unverified(&u) {
                println!("PANIC\t{}", panic_site(&p));
            }
        }
    });
    if let Err(p) = r {
        println!("PANIC\t{}", panic_site(&p));
    }
    println!("ok");
}

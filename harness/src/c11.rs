//! C11 — authorization is deterministic.
//! E-choice over the iteration orders of the engine's hash-based stores (H1 seam).
use crate::common::*;
use crate::tok::*;
use biscuit_auth::builder as b;
use biscuit_auth::datalog::SymbolTable;
use biscuit_auth::error;
use biscuit_auth::{Authorizer, AuthorizerBuilder, Biscuit};
use rayon::prelude::*;
use serde_json::json;
use std::collections::{BTreeMap, BTreeSet};
use std::sync::atomic::{AtomicUsize, Ordering};

#[derive(Clone)]
pub struct Prog {
    pub name: String,
    pub blocks: Vec<String>,
    pub auth: String,
    pub queries: Vec<String>,
}

fn mk(name: &str, blocks: Vec<&str>, auth: &str, queries: Vec<&str>) -> Prog {
    Prog { name: name.to_string(), blocks: blocks.iter().map(|s| s.to_string()).collect(), auth: auth.to_string(), queries: queries.iter().map(|s| s.to_string()).collect() }
}

/// systematically generated error-free programs: every check kind x threshold x alternative
/// shape x policy list over the facts n(0), n(1), n(2) (+ a token variant with origins)
pub fn generated_programs() -> Vec<Prog> {
    let mut out = vec![];
    let kinds = ["check if", "check all", "reject if"];
    let conds = ["$x > -1", "$x > 0", "$x > 1", "$x > 2", "$x == 1", "$x != 1"];
    let policies = ["allow if true;", "deny if n($x), $x > 1; allow if true;", "allow if n($x), $x > 2; deny if n(0);", "allow if n($x), $x == 2;"];
    for (ki, k) in kinds.iter().enumerate() {
        for (ci, c) in conds.iter().enumerate() {
            for (pi, pol) in policies.iter().enumerate() {
                let check1 = format!("{k} n($x), {c};");
                let check2 = format!("{k} n($x), {c} or n($y), $y > 5;");
                let auth = format!("n(0); n(1); n(2); {check1} {check2} {pol}");
                out.push(Prog { name: format!("gen/authorizer/{ki}-{ci}-{pi}"), blocks: vec![], auth, queries: vec![format!("q($x) <- n($x), {c}")] });
                if pi < 2 {
                    out.push(Prog {
                        name: format!("gen/token/{ki}-{ci}-{pi}"),
                        blocks: vec![format!("n(0); n(1); {check1}"), format!("n(2); {check2}")],
                        auth: format!("n(3); {check1} {pol}"),
                        queries: vec![format!("q($x) <- n($x), {c} trusting previous")],
                    });
                }
            }
        }
    }
    out
}

pub fn programs() -> Vec<Prog> {
    let p = mk;
    vec![
        // --- controls: no erroring binding, order must not matter
        p("ctl-multi-check-failure-list", vec![], "n(0); n(1); n(2); check if n($x), $x > 5; check if n(1); check all n($x), $x >= 0; reject if n(7); allow if n(2); deny if true;", vec!["q($x) <- n($x)"]),
        p("ctl-policy-order", vec![], "n(0); n(1); deny if n(5); allow if n($x), $x > 0; deny if true;", vec!["q($x) <- n($x), $x >= 1"]),
        p("ctl-recursive-rules", vec![], "e(1,2); e(2,3); e(3,1); t($x,$y) <- e($x,$y); t($x,$z) <- t($x,$y), e($y,$z); check if t(1,1); allow if true;", vec!["q($x,$y) <- t($x,$y)"]),
        p("ctl-token-origins", vec!["n(0); n(1); check if n($x), $x == 1;", "n(2); m($x) <- n($x); check if m(2); check if m(0);"], "n(3); check if n($x), $x > 1; allow if true;", vec!["q($x) <- n($x)", "q($x) <- m($x) trusting previous"]),
        p("ctl-check-all-mixed", vec!["n(1); n(2);"], "check all n($x), $x > 1; check all n($x), $x > 0; allow if true;", vec![]),
        p("ctl-heterogeneous-equal", vec![], "n(1); n(\"a\"); n(true); check if n($x), $x == \"a\"; check if n($x), $x == 2; allow if true;", vec!["q($x) <- n($x), $x != 1"]),
        p("ctl-two-erring-rules-same-kind", vec![], "n(0); r($x) <- n($x), 10 / $x > 0; s($x) <- n($x), 5 / $x > 0; allow if true;", vec![]),
        p("ctl-same-fact-nested-origins", vec!["n(1); r($x) <- n($x); check if r(1);", "r($x) <- n($x); check if r(1);"], "check if r(1); allow if r(1); deny if true;", vec!["q($x) <- r($x)"]),
        p("ctl-same-fact-three-origins", vec!["n(1); n(2); r($x) <- n($x);", "r($x) <- n($x); n(3);", "r($x) <- n($x) trusting previous; check if r(3);"], "r($x) <- n($x); check if r(1); check all r($x), $x < 3; allow if r(2); deny if true;", vec!["q($x) <- r($x)", "q($x) <- r($x) trusting previous"]),
        p("ctl-same-fact-via-two-rules", vec!["n(1); a($x) <- n($x); r($x) <- a($x);", "r($x) <- n($x); reject if r(2);"], "reject if r(5); check if r(1); allow if true;", vec!["q($x) <- r($x)"]),
        p("ctl-all-bindings-err", vec![], "n(0); check if n($x), 10 / $x > 0; allow if true;", vec![]),
        // a projecting rule: two bindings give the same head, one of them fails. Rule application evaluates
        // every binding, so the error is reported whatever the order
        p("ctl-rule-projection-erring+succeeding-binding-same-head", vec![], "score(\"alice\", 0); score(\"alice\", 50); score(\"bob\", 10); eligible($u) <- score($u, $n), 100 / $n >= 1; allow if true;", vec!["q($u) <- eligible($u)"]),
        p("ctl-query-projection-erring+succeeding-binding-same-head", vec![], "score(\"alice\", 0); score(\"alice\", 50); allow if true;", vec!["q($u) <- score($u, $n), 100 / $n >= 1"]),
        // rules and queries whose head has no variable: every binding is still evaluated (an erring one is reported
        // whatever the order) and the fact is derived under the origin of every binding
        p("ctl-constant-head-rule-erring+succeeding-binding", vec![], "n(0); n(1); ok(true) <- n($x), 10 / $x > 0; allow if true;", vec!["q(true) <- n($x), 10 / $x > 0"]),
        p("ctl-constant-head-rule-two-origins", vec!["n(1);", "n(2); check if ok(true) trusting previous;"], "ok(true) <- n($x) trusting previous; check if ok(true); allow if ok(true) trusting previous; deny if true;", vec!["q(true) <- ok(true) trusting previous", "q($x) <- n($x) trusting previous"]),
        p("ctl-same-fact-authorizer-and-authority", vec!["user(\"alice\"); member($u) <- user($u);"], "user(\"alice\"); member($u) <- user($u); check if member(\"alice\"); allow if true;", vec!["q($u) <- member($u)", "q($u) <- member($u) trusting previous"]),
        // derivation chains that cross rule groups (one group per trusted-origin set): the number of fixpoint
        // iterations, and with it what a tight iteration budget allows, must not depend on the group order
        p("ctl-chain-across-two-groups", vec!["a(1); b($x) <- a($x);", "c($x) <- b($x) trusting previous; check if c(1);"], "allow if true;", vec!["q($x) <- c($x) trusting previous"]),
        p("ctl-chain-across-three-groups", vec!["a(1); b($x) <- a($x);", "c($x) <- b($x) trusting previous;", "d($x) <- c($x) trusting previous; check if d(1);"], "e($x) <- a($x); allow if e(1); deny if true;", vec!["q($x) <- d($x) trusting previous"]),
        p("ctl-chain-back-and-forth", vec!["a(1); c($x) <- b($x);", "b($x) <- a($x) trusting previous; d($x) <- c($x) trusting previous; check if d(1);"], "allow if true;", vec!["q($x) <- d($x) trusting previous"]),
        // --- programs where some bindings make an expression fail
        p("check-if/erroring+matching-binding", vec![], "n(0); n(1); n(2); check if n($x), 10 / $x > 0; allow if true;", vec![]),
        p("policy/erroring+matching-binding", vec![], "n(0); n(1); allow if n($x), 10 / $x > 0; deny if true;", vec![]),
        p("reject-if/erroring+non-matching-binding", vec![], "n(0); n(1); reject if n($x), 10 / $x > 100; allow if true;", vec![]),
        p("check-all/erroring+false-binding", vec![], "n(0); n(5); check all n($x), 10 / $x > 5; allow if true;", vec![]),
        p("check-if/type-error-on-heterogeneous-facts", vec![], "n(1); n(\"a\"); check if n($x), $x > 0; allow if true;", vec![]),
        p("check-if/two-alternatives-first-errs", vec![], "n(0); n(4); m(1); check if n($x), 10 / $x > 100 or m(1); allow if true;", vec![]),
        p("rule/two-error-kinds-in-one-rule", vec![], "n(0); n(1); r($x) <- n($x), 10 / $x + 9223372036854775807 > 0; allow if true;", vec![]),
        p("rule/two-erring-rules-different-groups", vec!["n(0); n(1);", "r($x) <- n($x), $x + 9223372036854775807 > 0;"], "s($x) <- n($x), 10 / $x > 0; allow if true;", vec![]),
        p("block-check/erroring+matching-binding", vec!["n(0); n(3);", "check if n($x), 9 / $x > 0;"], "allow if true;", vec![]),
        p("query/erroring+matching-binding", vec![], "n(0); n(1); allow if true;", vec!["q($x) <- n($x), 10 / $x > 0"]),
        p("check-if/overflow+matching-binding", vec![], "n(9223372036854775807); n(1); check if n($x), $x + 1 > 0; allow if true;", vec![]),
    ]
}

pub fn extra_programs() -> Vec<Prog> {
    let p = mk;
    vec![
        p("ctl-larger-fact-universe", vec!["n(0); n(1); n(2); n(3);", "m(4); m(5); check if n($x), m($y), $x < $y;"], "k(6); k(7); check if n($x), $x > 2; check if k($x), $x > 6; allow if n(3); deny if true;", vec!["q($x) <- n($x)", "q($x, $y) <- n($x), k($y), $x + $y > 7"]),
        p("ctl-third-party-like-scopes", vec!["n(0); check if n(0) trusting authority;", "n(1); check if n($x), $x > 0 trusting previous;", "n(2); check if n(2);"], "check if n($x), $x >= 0; allow if true;", vec!["q($x) <- n($x) trusting previous"]),
        p("ctl-many-rules", vec!["a(1); a(2); b($x) <- a($x);", "c($x) <- b($x) trusting previous; check if c(1);"], "d($x) <- a($x); e($x) <- d($x), $x > 1; check if e(2); check if e(1); allow if true;", vec!["q($x) <- b($x)", "q($x) <- e($x)"]),
        p("check-if/three-erring-bindings-two-kinds", vec![], "n(0); n(1); n(\"a\"); check if n($x), 10 / $x > 0; allow if true;", vec![]),
        p("policy/deny-errs-or-allow", vec![], "n(0); n(1); deny if n($x), 10 / $x > 100; allow if true;", vec![]),
    ]
}

pub fn build_prog_token(p: &Prog) -> Option<Biscuit> {
    if p.blocks.is_empty() {
        return None;
    }
    let mut t = b::BiscuitBuilder::new()
        .code(&p.blocks[0])
        .expect("block 0 parses")
        .build_with_key_pair(&root(Alg::Ed), SymbolTable::new(), &key(Alg::Ed, ROLE_NEXT, 0))
        .expect("token builds");
    for (i, src) in p.blocks.iter().enumerate().skip(1) {
        t = t
            .append_with_keypair(&key(Alg::Ed, ROLE_NEXT, i as u8), b::BlockBuilder::new().code(src).expect("block parses"))
            .expect("append");
    }
    Some(t)
}

pub fn builder_for(p: &Prog) -> AuthorizerBuilder {
    AuthorizerBuilder::new().code(&p.auth).expect("authorizer code parses").limits(crate::c04::big_limits())
}

fn show_result(r: &Result<usize, error::Token>) -> String {
    match crate::c04::real_decision(r) {
        Ok(d) => format!("{d:?}"),
        Err(e) => format!("Err({e})"),
    }
}

/// one observation of a program: authorize + queries + iterations
pub fn observe(p: &Prog, token: Option<&Biscuit>, variant: &str) -> String {
    let r = guard(|| {
        let ab = builder_for(p);
        let mut a: Authorizer = match token {
            Some(t) => ab.build(t),
            None => ab.build_unauthenticated(),
        }
        .map_err(|e| format!("build: {e:?}"))?;
        if variant == "clone" {
            a = a.clone();
        }
        if variant == "snapshot" {
            let s = a.to_raw_snapshot().map_err(|e| format!("snapshot: {e:?}"))?;
            a = Authorizer::from_raw_snapshot(&s).map_err(|e| format!("restore: {e:?}"))?;
        }
        let res = a.authorize();
        let mut out = format!("authorize={}", show_result(&res));
        for q in &p.queries {
            let r: Result<Vec<b::Fact>, _> = a.query_all(q.as_str());
            let s = match r {
                Ok(mut v) => {
                    let mut x: Vec<String> = v.drain(..).map(|f| f.to_string()).collect();
                    x.sort();
                    format!("{x:?}")
                }
                Err(e) => format!("Err({e:?})"),
            };
            out += &format!(" ; query[{q}]={s}");
        }
        out += &format!(" ; iterations={}", a.iterations());
        Ok::<_, String>(out)
    });
    match r {
        Ok(Ok(s)) => s,
        Ok(Err(e)) => format!("ERROR {e}"),
        Err(p) => format!("PANIC {}", panic_site(&p)),
    }
}

#[cfg(feature = "hooks")]
pub fn orders_for(universe: &[String], tier: Tier, seed: u64) -> (Vec<biscuit_auth::verif_hooks::OrderMode>, bool) {
    use biscuit_auth::verif_hooks::OrderMode;
    let n = universe.len();
    let mk = |perm: &[usize]| OrderMode::Ranked(universe.iter().enumerate().map(|(i, k)| (k.clone(), perm[i] as i64)).collect());
    let mut out = vec![];
    if n <= tier.pick(7, 8) {
        for p in permutations(n) {
            out.push(mk(&p));
        }
        return (out, true);
    }
    // deviation-bounded: identity, reversed, every element moved to the front (1 deviation),
    // every pair moved to the front in both orders (2 deviations), every transposition
    let id: Vec<usize> = (0..n).collect();
    out.push(mk(&id));
    out.push(OrderMode::Reversed);
    let front = |order: &[usize], i: usize| {
        // element i gets rank -1 relative ordering: build ranks
        let mut o: Vec<usize> = order.iter().cloned().filter(|x| *x != i).collect();
        o.insert(0, i);
        o
    };
    let ranks_of = |order: &[usize]| {
        let mut r = vec![0usize; n];
        for (pos, e) in order.iter().enumerate() {
            r[*e] = pos;
        }
        r
    };
    for i in 0..n {
        let o1 = front(&id, i);
        out.push(mk(&ranks_of(&o1)));
        for j in 0..n {
            if i != j {
                let o2 = front(&o1, j);
                out.push(mk(&ranks_of(&o2)));
            }
        }
    }
    for i in 0..n {
        for j in (i + 1)..n {
            let mut r = id.clone();
            r.swap(i, j);
            out.push(mk(&r));
        }
    }
    for s in 0..tier.pick(512, 2048) {
        out.push(OrderMode::Seeded(seed.wrapping_add(s as u64 * 104729 + 17)));
    }
    (out, false)
}

pub fn run(tier: Tier) {
    let ctx = Ctx::new("C11", tier);
    #[cfg(not(feature = "hooks"))]
    {
        eprintln!("MACHINERY: C11 needs the hooks build");
        std::process::exit(2);
    }
    #[cfg(feature = "hooks")]
    {
        use biscuit_auth::verif_hooks as vh;
        let mut progs = programs();
        progs.extend(extra_programs());
        progs.extend(generated_programs());
        let executions = AtomicUsize::new(0);
        let exhaustive_progs = AtomicUsize::new(0);
        let per_prog: std::sync::Mutex<BTreeMap<String, serde_json::Value>> = std::sync::Mutex::new(BTreeMap::new());
        progs.par_iter().for_each(|p| {
            let token = build_prog_token(p);
            vh::install_clock(0, 0, None);
            // learn the key universe
            vh::record_seen(true);
            vh::set_order(Some(vh::OrderMode::Reversed));
            let _ = observe(p, token.as_ref(), "fresh");
            let universe = vh::take_seen();
            vh::record_seen(false);
            let (orders, exhaustive) = orders_for(&universe, tier, ctx.seed);
            if exhaustive {
                exhaustive_progs.fetch_add(1, Ordering::Relaxed);
            }
            let mut outcomes: BTreeMap<String, usize> = BTreeMap::new();
            let mut first_order: BTreeMap<String, String> = BTreeMap::new();
            for (oi, m) in orders.iter().enumerate() {
                for variant in ["fresh", "clone", "snapshot"] {
                    // clone / snapshot variants on a subset of the orders
                    if variant != "fresh" && oi % 5 != 0 {
                        continue;
                    }
                    vh::set_order(Some(m.clone()));
                    let o = observe(p, token.as_ref(), variant);
                    // a failing execution is replayed: it must reproduce exactly
                    vh::set_order(Some(m.clone()));
                    let o2 = observe(p, token.as_ref(), variant);
                    if o != o2 {
                        eprintln!("MACHINERY: nondeterministic replay of one order for program {}: {o} vs {o2}", p.name);
                        std::process::exit(2);
                    }
                    executions.fetch_add(2, Ordering::Relaxed);
                    *outcomes.entry(o.clone()).or_insert(0) += 1;
                    first_order.entry(o).or_insert_with(|| format!("{variant} / {m:?}"));
                }
            }
            vh::set_order(None);
            vh::remove_clock();
            per_prog.lock().unwrap().insert(
                p.name.to_string(),
                json!({"key_universe": universe.len(), "orders": orders.len(), "all_rankings": exhaustive, "distinct_outcomes": outcomes.len()}),
            );
            if outcomes.len() != 1 {
                let set: Vec<String> = outcomes.keys().map(|o| o.split(" ; ").next().unwrap_or("").replace("authorize=", "")).collect::<BTreeSet<_>>().into_iter().collect();
                let qset: BTreeSet<String> = outcomes.keys().map(|o| o.clone()).collect();
                let short = if set.len() > 1 { set.join(" | ") } else { qset.into_iter().collect::<Vec<_>>().join(" | ") };
                ctx.violation(
                    format!("C11/{}/outcomes={{{}}}", p.name, short.chars().take(300).collect::<String>()),
                    json!({"program": {"blocks": p.blocks, "authorizer": p.auth, "queries": p.queries}, "outcomes": outcomes, "an_order_for_each_outcome": first_order}),
                );
            }
        });
        let n_exec = executions.load(Ordering::Relaxed);
        let pp = per_prog.into_inner().unwrap();
        let samples: Vec<serde_json::Value> = progs.iter().take(4).map(|p| json!({"program": p.name, "authorizer": p.auth, "blocks": p.blocks, "exploration": pp.get(&p.name)})).collect();
        let cov = json!({
            "states": progs.len(),
            "transitions": n_exec,
            "traces_validated_against_impl": n_exec,
            "programs": progs.len(),
            "programs_with_all_rankings_explored": exhaustive_progs.load(Ordering::Relaxed),
            "executions (each order run twice; replay must be identical)": n_exec,
            "per_program": pp,
            "exhaustive": true,
            "samples": samples,
            "rule": "for each program the key universe of the hash-based stores (origins, facts, rule groups) is recorded, then every ranking of it (universe <= 6) or every ranking within 2 deviations of the canonical order plus seeded orders is imposed through the H1 seam on a freshly built authorizer (also cloned and snapshot-restored); observation = authorize result (policy, ordered failed checks, error kind), sorted query results, iterations; the set of observations over all orders must be a singleton",
        });
        ctx.finish(
            "model_checking",
            cov,
            vec![
                "hash order = one global ranking of keys per execution; every permutation of a small set is assumed reachable under some RandomState".into(),
                "the virtual clock is frozen and limits are non-binding".into(),
            ],
        );
    }
}

//! R-dl: naive reference implementation of scoped Datalog with origins
//! (DESIGN.md Appendix A). No indexing, no iterators, no interning.
use crate::rexpr::{self, Env, RErr, ROp, V};
use biscuit_auth::builder as b;
use std::collections::{BTreeMap, BTreeSet};

pub const A: usize = usize::MAX;

#[derive(Clone, Debug, PartialEq, Eq, PartialOrd, Ord)]
pub enum Tm {
    Var(String),
    Val(V),
}

#[derive(Clone, Debug, PartialEq, Eq, PartialOrd, Ord)]
pub struct Pred {
    pub name: String,
    pub terms: Vec<Tm>,
}

pub type Ground = (String, Vec<V>);
pub type Origin = BTreeSet<usize>;

#[derive(Clone, Debug, PartialEq, Eq)]
pub enum RScope {
    Authority,
    Previous,
    Key(String),
}

#[derive(Clone, Debug, PartialEq, Eq)]
pub struct RRule {
    pub head: Pred,
    pub body: Vec<Pred>,
    pub exprs: Vec<Vec<ROp>>,
    pub scopes: Vec<RScope>,
}

#[derive(Clone, Copy, Debug, PartialEq, Eq)]
pub enum Kind {
    One,
    All,
    Reject,
}

#[derive(Clone, Debug)]
pub struct RCheck {
    pub kind: Kind,
    pub queries: Vec<RRule>,
}

#[derive(Clone, Debug)]
pub struct RPolicy {
    pub allow: bool,
    pub queries: Vec<RRule>,
}

#[derive(Clone, Debug, Default)]
pub struct RBlock {
    pub facts: Vec<Pred>,
    pub rules: Vec<RRule>,
    pub checks: Vec<RCheck>,
    pub scopes: Vec<RScope>,
    /// printed external public key for third-party blocks
    pub ext: Option<String>,
}

#[derive(Clone, Debug, Default)]
pub struct RAuthorizer {
    pub facts: Vec<Pred>,
    pub rules: Vec<RRule>,
    pub checks: Vec<RCheck>,
    pub policies: Vec<RPolicy>,
    pub scopes: Vec<RScope>,
}

// ---------------------------------------------------------------- conversion

pub fn tm(t: &b::Term) -> Option<Tm> {
    match t {
        b::Term::Variable(v) => Some(Tm::Var(v.clone())),
        other => rexpr::term_to_v(other).map(Tm::Val),
    }
}
pub fn pred(p: &b::Predicate) -> Option<Pred> {
    Some(Pred {
        name: p.name.clone(),
        terms: p.terms.iter().map(tm).collect::<Option<_>>()?,
    })
}
pub fn scope(s: &b::Scope) -> Option<RScope> {
    Some(match s {
        b::Scope::Authority => RScope::Authority,
        b::Scope::Previous => RScope::Previous,
        b::Scope::PublicKey(k) => RScope::Key(format!("{}", k)),
        b::Scope::Parameter(_) => return None,
    })
}
pub fn rule(r: &b::Rule) -> Option<RRule> {
    Some(RRule {
        head: pred(&r.head)?,
        body: r.body.iter().map(pred).collect::<Option<_>>()?,
        exprs: r
            .expressions
            .iter()
            .map(|e| rexpr::ops_from_builder(&e.ops))
            .collect::<Option<_>>()?,
        scopes: r.scopes.iter().map(scope).collect::<Option<_>>()?,
    })
}
pub fn check(c: &b::Check) -> Option<RCheck> {
    Some(RCheck {
        kind: match c.kind {
            b::CheckKind::One => Kind::One,
            b::CheckKind::All => Kind::All,
            b::CheckKind::Reject => Kind::Reject,
        },
        queries: c.queries.iter().map(rule).collect::<Option<_>>()?,
    })
}
pub fn policy(p: &b::Policy) -> Option<RPolicy> {
    Some(RPolicy {
        allow: matches!(p.kind, b::PolicyKind::Allow),
        queries: p.queries.iter().map(rule).collect::<Option<_>>()?,
    })
}
pub fn block(bb: &b::BlockBuilder, ext: Option<String>) -> Option<RBlock> {
    Some(RBlock {
        facts: bb.facts.iter().map(|f| pred(&f.predicate)).collect::<Option<_>>()?,
        rules: bb.rules.iter().map(rule).collect::<Option<_>>()?,
        checks: bb.checks.iter().map(check).collect::<Option<_>>()?,
        scopes: bb.scopes.iter().map(scope).collect::<Option<_>>()?,
        ext,
    })
}

// ---------------------------------------------------------------- semantics

#[derive(Clone, Debug, PartialEq, Eq)]
pub enum Fail {
    /// an expression evaluation failed for some binding: outside the fragment C04 decides
    Expr(RErr),
    /// block rule with a head variable missing from the body
    InvalidBlockRule,
}

pub struct Ctx<'a> {
    pub blocks: &'a [RBlock],
    pub ext: Option<&'a rexpr::Extern>,
}

impl<'a> Ctx<'a> {
    fn exp(&self, s: &RScope, owner: usize) -> Vec<usize> {
        match s {
            RScope::Authority => vec![0],
            RScope::Previous => {
                if owner == A {
                    vec![]
                } else {
                    (0..=owner).collect()
                }
            }
            RScope::Key(k) => self
                .blocks
                .iter()
                .enumerate()
                .filter(|(_, b)| b.ext.as_ref() == Some(k))
                .map(|(i, _)| i)
                .collect(),
        }
    }

    /// trusted set of an element owned by `owner` with element scopes `e` inside a
    /// block / authorizer with scopes `bs`
    pub fn trusted(&self, owner: usize, e: &[RScope], bs: &[RScope]) -> Origin {
        let default = [RScope::Authority];
        let s: &[RScope] = if !e.is_empty() {
            e
        } else if !bs.is_empty() {
            bs
        } else {
            &default
        };
        let mut t: Origin = [A, owner].into_iter().collect();
        for sc in s {
            t.extend(self.exp(sc, owner));
        }
        t
    }
}

pub type World = BTreeSet<(Origin, Ground)>;

fn unify(p: &Pred, f: &Ground, env: &mut BTreeMap<String, V>) -> bool {
    if p.name != f.0 || p.terms.len() != f.1.len() {
        return false;
    }
    for (t, v) in p.terms.iter().zip(f.1.iter()) {
        match t {
            Tm::Val(c) => {
                if c != v {
                    return false;
                }
            }
            Tm::Var(n) => match env.get(n) {
                Some(bound) => {
                    if bound != v {
                        return false;
                    }
                }
                None => {
                    env.insert(n.clone(), v.clone());
                }
            },
        }
    }
    true
}

/// all (origin, substitution) pairs matching the body predicates over visible facts
fn matches(body: &[Pred], visible: &[(&Origin, &Ground)]) -> Vec<(Origin, BTreeMap<String, V>)> {
    let mut acc: Vec<(Origin, BTreeMap<String, V>)> = vec![(Origin::new(), BTreeMap::new())];
    for p in body {
        let mut next = vec![];
        for (o, env) in &acc {
            for (fo, f) in visible {
                let mut e2 = env.clone();
                if unify(p, f, &mut e2) {
                    let mut o2 = o.clone();
                    o2.extend(fo.iter().cloned());
                    next.push((o2, e2));
                }
            }
        }
        acc = next;
    }
    acc
}

/// evaluates all expressions under a substitution: Ok(true) iff all are true
fn exprs_hold(exprs: &[Vec<ROp>], env: &BTreeMap<String, V>, ext: Option<&rexpr::Extern>) -> Result<bool, RErr> {
    let e = Env { vars: env.clone(), ext };
    for ops in exprs {
        match rexpr::eval(ops, &e)? {
            V::Bool(true) => {}
            V::Bool(false) => return Ok(false),
            _ => return Err(RErr::Type),
        }
    }
    Ok(true)
}

fn visible<'w>(world: &'w World, trusted: &Origin) -> Vec<(&'w Origin, &'w Ground)> {
    world
        .iter()
        .filter(|(o, _)| o.is_subset(trusted))
        .map(|(o, f)| (o, f))
        .collect()
}

/// facts derived by one application of a rule
pub fn apply_rule(
    r: &RRule,
    owner: usize,
    trusted: &Origin,
    world: &World,
    ext: Option<&rexpr::Extern>,
) -> Result<Vec<(Origin, Ground)>, RErr> {
    let vis = visible(world, trusted);
    let mut out = vec![];
    for (mut o, env) in matches(&r.body, &vis) {
        if !exprs_hold(&r.exprs, &env, ext)? {
            continue;
        }
        let mut terms = vec![];
        let mut complete = true;
        for t in &r.head.terms {
            match t {
                Tm::Val(v) => terms.push(v.clone()),
                Tm::Var(n) => match env.get(n) {
                    Some(v) => terms.push(v.clone()),
                    None => {
                        complete = false;
                        break;
                    }
                },
            }
        }
        if !complete {
            continue;
        }
        o.insert(owner);
        out.push((o, (r.head.name.clone(), terms)));
    }
    Ok(out)
}

/// least fixpoint of `rules` = (rule, owner, trusted) over `world`
pub fn fixpoint(
    mut world: World,
    rules: &[(RRule, usize, Origin)],
    ext: Option<&rexpr::Extern>,
    max_rounds: usize,
) -> Result<World, RErr> {
    for _ in 0..max_rounds {
        let mut new = vec![];
        for (r, owner, trusted) in rules {
            new.extend(apply_rule(r, *owner, trusted, &world, ext)?);
        }
        let before = world.len();
        world.extend(new);
        if world.len() == before {
            return Ok(world);
        }
    }
    panic!("reference fixpoint did not converge in {max_rounds} rounds");
}

fn query_holds(q: &RRule, trusted: &Origin, world: &World, ext: Option<&rexpr::Extern>) -> Result<bool, RErr> {
    let vis = visible(world, trusted);
    let mut any = false;
    // every binding is evaluated: an error for any binding is an error (order-free definition)
    for (_, env) in matches(&q.body, &vis) {
        if exprs_hold(&q.exprs, &env, ext)? {
            any = true;
        }
    }
    Ok(any)
}

fn query_all_holds(q: &RRule, trusted: &Origin, world: &World, ext: Option<&rexpr::Extern>) -> Result<bool, RErr> {
    let vis = visible(world, trusted);
    let ms = matches(&q.body, &vis);
    let mut all = true;
    for (_, env) in &ms {
        if !exprs_hold(&q.exprs, env, ext)? {
            all = false;
        }
    }
    Ok(!ms.is_empty() && all)
}

fn check_holds(
    c: &RCheck,
    owner: usize,
    bs: &[RScope],
    ctx: &Ctx,
    world: &World,
) -> Result<bool, RErr> {
    let mut results = vec![];
    for q in &c.queries {
        let t = ctx.trusted(owner, &q.scopes, bs);
        results.push(match c.kind {
            Kind::One | Kind::Reject => query_holds(q, &t, world, ctx.ext)?,
            Kind::All => query_all_holds(q, &t, world, ctx.ext)?,
        });
    }
    Ok(match c.kind {
        Kind::One | Kind::All => results.iter().any(|x| *x),
        Kind::Reject => !results.iter().any(|x| *x),
    })
}

#[derive(Clone, Debug, PartialEq, Eq)]
pub enum FailedCheck {
    Authorizer(usize),
    Block(usize, usize),
}

#[derive(Clone, Debug, PartialEq, Eq)]
pub enum Decision {
    Ok(usize),
    UnauthorizedAllow(usize, Vec<FailedCheck>),
    UnauthorizedDeny(usize, Vec<FailedCheck>),
    NoMatchingPolicy(Vec<FailedCheck>),
}

pub struct Outcome {
    pub world: World,
    pub decision: Decision,
}

fn ground(p: &Pred) -> Ground {
    (
        p.name.clone(),
        p.terms
            .iter()
            .map(|t| match t {
                Tm::Val(v) => v.clone(),
                Tm::Var(n) => panic!("variable {n} in a fact"),
            })
            .collect(),
    )
}

pub fn build_world(blocks: &[RBlock], auth: &RAuthorizer, ext: Option<&rexpr::Extern>) -> Result<World, Fail> {
    let ctx = Ctx { blocks, ext };
    let mut world = World::new();
    let mut rules = vec![];
    for (i, bl) in blocks.iter().enumerate() {
        for f in &bl.facts {
            world.insert(([i].into_iter().collect(), ground(f)));
        }
        for r in &bl.rules {
            let body_vars: BTreeSet<&String> = r
                .body
                .iter()
                .flat_map(|p| p.terms.iter())
                .filter_map(|t| if let Tm::Var(n) = t { Some(n) } else { None })
                .collect();
            if r.head.terms.iter().any(|t| matches!(t, Tm::Var(n) if !body_vars.contains(n))) {
                return Err(Fail::InvalidBlockRule);
            }
            rules.push((r.clone(), i, ctx.trusted(i, &r.scopes, &bl.scopes)));
        }
    }
    for f in &auth.facts {
        world.insert(([A].into_iter().collect(), ground(f)));
    }
    for r in &auth.rules {
        rules.push((r.clone(), A, ctx.trusted(A, &r.scopes, &auth.scopes)));
    }
    fixpoint(world, &rules, ext, 10_000).map_err(Fail::Expr)
}

pub fn authorize(blocks: &[RBlock], auth: &RAuthorizer, ext: Option<&rexpr::Extern>) -> Result<Outcome, Fail> {
    let ctx = Ctx { blocks, ext };
    let world = build_world(blocks, auth, ext)?;
    let mut failed = vec![];
    for (i, c) in auth.checks.iter().enumerate() {
        if !check_holds(c, A, &auth.scopes, &ctx, &world).map_err(Fail::Expr)? {
            failed.push(FailedCheck::Authorizer(i));
        }
    }
    if let Some(b0) = blocks.first() {
        for (j, c) in b0.checks.iter().enumerate() {
            if !check_holds(c, 0, &b0.scopes, &ctx, &world).map_err(Fail::Expr)? {
                failed.push(FailedCheck::Block(0, j));
            }
        }
    }
    let mut matched: Option<(usize, bool)> = None;
    'p: for (i, p) in auth.policies.iter().enumerate() {
        for q in &p.queries {
            let t = ctx.trusted(A, &q.scopes, &auth.scopes);
            if query_holds(q, &t, &world, ext).map_err(Fail::Expr)? {
                matched = Some((i, p.allow));
                break 'p;
            }
        }
    }
    for (i, bl) in blocks.iter().enumerate().skip(1) {
        for (j, c) in bl.checks.iter().enumerate() {
            if !check_holds(c, i, &bl.scopes, &ctx, &world).map_err(Fail::Expr)? {
                failed.push(FailedCheck::Block(i, j));
            }
        }
    }
    let decision = match matched {
        Some((i, true)) if failed.is_empty() => Decision::Ok(i),
        Some((i, true)) => Decision::UnauthorizedAllow(i, failed),
        Some((i, false)) => Decision::UnauthorizedDeny(i, failed),
        None => Decision::NoMatchingPolicy(failed),
    };
    Ok(Outcome { world, decision })
}

/// `query` (all = false: default trust {authorizer, authority}) / `query_all` (everything)
pub fn query(
    blocks: &[RBlock],
    world: &World,
    r: &RRule,
    all: bool,
    ext: Option<&rexpr::Extern>,
) -> Result<BTreeSet<Ground>, RErr> {
    let ctx = Ctx { blocks, ext };
    let trusted: Origin = if r.scopes.is_empty() {
        if all {
            let mut t: Origin = (0..blocks.len()).collect();
            t.insert(A);
            t
        } else {
            [A, 0].into_iter().collect()
        }
    } else {
        ctx.trusted(A, &r.scopes, &[])
    };
    Ok(apply_rule(r, A, &trusted, world, ext)?
        .into_iter()
        .map(|(_, f)| f)
        .collect())
}

//! C10 — evaluation budgets are enforced.
//! E-hist over call sequences x programs x limit triples, with a virtual clock
//! (H2) advanced by the join iterator's work ticks (H3).
use crate::common::*;
use crate::tok::*;
use biscuit_auth::builder as b;
use biscuit_auth::datalog::SymbolTable;
use biscuit_auth::error;
use biscuit_auth::{Authorizer, AuthorizerBuilder, AuthorizerLimits, Biscuit};
use rayon::prelude::*;
use serde_json::json;
use std::collections::BTreeMap;
use std::sync::atomic::{AtomicUsize, Ordering};
use std::time::Duration;

/// virtual cost of one candidate examined by the join iterator: 1 microsecond, and 300 ms (so that consumed time
/// crosses whole seconds and every representation of a duration is exercised)
const TICKS_NS: [u64; 2] = [1000, 300_000_000];
const HOUR_NS: u64 = 360_000_000_000_000;

#[derive(Clone)]
pub struct Prog {
    pub family: &'static str,
    pub name: String,
    pub code: String,
    /// put the program in a token block instead of the authorizer
    pub in_token: bool,
    pub query: String,
    /// number of body predicates over all rules (for the promptness allowance)
    pub body_preds: usize,
    /// content of the authority block when the program lives in a token
    pub authority_code: String,
}

fn chain(l: usize) -> String {
    let mut s = String::from("reach(0); ");
    for i in 0..l {
        s += &format!("next({i},{}); ", i + 1);
    }
    s += "reach($y) <- reach($x), next($x,$y); ";
    s
}

pub fn programs(tier: Tier) -> Vec<Prog> {
    let mut v = vec![];
    for l in tier.pick(vec![0usize, 1, 3], vec![0, 1, 2, 3, 5, 6]) {
        for in_token in [false, true] {
            v.push(Prog { family: "chain", name: format!("chain({l}){}", if in_token { "/token" } else { "" }), code: chain(l), in_token, query: "q($x) <- reach($x)".into(), body_preds: 2, authority_code: "auth(0);".into() });
        }
    }
    let fan: String = (0..8).map(|i| format!("f({i}); ")).collect::<String>() + "g($x) <- f($x); ";
    v.push(Prog { family: "fan", name: "fan(8)".into(), code: fan.clone(), in_token: false, query: "q($x) <- g($x)".into(), body_preds: 1, authority_code: "auth(0);".into() });
    v.push(Prog { family: "fan", name: "fan(8)/token".into(), code: fan, in_token: true, query: "q($x) <- g($x)".into(), body_preds: 1, authority_code: "auth(0);".into() });
    for (n, k) in tier.pick(vec![(3usize, 2usize), (6, 4)], vec![(3, 2), (4, 3), (6, 3), (6, 4)]) {
        let facts: String = (0..n).map(|i| format!("f({i}); ")).collect();
        let vars: Vec<String> = (0..k).map(|i| format!("$x{i}")).collect();
        let body: Vec<String> = vars.iter().map(|x| format!("f({x})")).collect();
        let code = format!("{facts} j({}) <- {}; ", vars.join(","), body.join(", "));
        v.push(Prog { family: "join", name: format!("join({n},{k})"), code, in_token: false, query: format!("q($x0) <- j({})", vars.join(",")), body_preds: k, authority_code: "auth(0);".into() });
    }
    let preload: String = (0..10).map(|i| format!("p({i}); ")).collect();
    v.push(Prog { family: "preload", name: "preload(10)".into(), code: preload.clone(), in_token: false, query: "q($x) <- p($x)".into(), body_preds: 0, authority_code: "auth(0);".into() });
    v.push(Prog { family: "preload", name: "preload(10)/token".into(), code: preload, in_token: true, query: "q($x) <- p($x)".into(), body_preds: 0, authority_code: "auth(0);".into() });
    // two rule groups: one cheap chain and one fan (many cheap iterations + breadth)
    v.push(Prog { family: "mixed", name: "chain(3)+fan(8)".into(), code: chain(3) + &(0..8).map(|i| format!("f({i}); ")).collect::<String>() + "g($x) <- f($x), reach($x); ", in_token: false, query: "q($x) <- g($x)".into(), body_preds: 4, authority_code: "auth(0);".into() });
    // the fixpoint is cheap, the expensive evaluation is a check that passes / a policy that matches, in each of
    // the four places authorize() evaluates queries (authorizer checks, authority checks, policies, block checks)
    let facts: String = (0..6).map(|i| format!("f({i}); ")).collect();
    let body = "f($a), f($b), f($c), $a + $b + $c >= 0";
    let q: String = "q($x) <- f($x)".into();
    v.push(Prog { family: "check-phase", name: "passing-check/authorizer".into(), code: format!("{facts} check all {body};"), in_token: false, query: q.clone(), body_preds: 3, authority_code: "auth(0);".into() });
    v.push(Prog { family: "check-phase", name: "matching-policy/authorizer".into(), code: format!("{facts} allow if {body};"), in_token: false, query: q.clone(), body_preds: 3, authority_code: "auth(0);".into() });
    v.push(Prog { family: "check-phase", name: "passing-check/block".into(), code: format!("{facts} check all {body};"), in_token: true, query: q.clone(), body_preds: 3, authority_code: "auth(0);".into() });
    v.push(Prog { family: "check-phase", name: "passing-check/authority".into(), code: "b(1);".into(), in_token: true, query: q.clone(), body_preds: 3, authority_code: format!("{facts} check all {body};") });
    v.push(Prog { family: "check-phase", name: "chain(3)+passing-check/authorizer".into(), code: format!("{} {facts} check all f($a), f($b), $a + $b >= 0;", chain(3)), in_token: false, query: "q($x) <- reach($x)".into(), body_preds: 4, authority_code: "auth(0);".into() });
    v.push(Prog { family: "check-phase", name: "passing-check-if/authorizer".into(), code: format!("{facts} check if {body}, $a + $b + $c == 15;"), in_token: false, query: q, body_preds: 3, authority_code: "auth(0);".into() });
    v
}

#[derive(Clone, Copy, Debug, PartialEq, Eq, PartialOrd, Ord)]
pub enum Call {
    Run,
    Authorize,
    AuthorizeWithBigLimits,
    Query,
    QueryAll,
    QueryWithBigLimits,
    CloneIt,
    SnapshotRestore,
}
pub const CALLS: [Call; 8] = [Call::Run, Call::Authorize, Call::AuthorizeWithBigLimits, Call::Query, Call::QueryAll, Call::QueryWithBigLimits, Call::CloneIt, Call::SnapshotRestore];

#[derive(Clone, Debug)]
pub struct Lim {
    pub class: String,
    pub limits: AuthorizerLimits,
}

#[derive(Debug, Clone, PartialEq)]
pub enum Res {
    Completed,
    RunLimit(String),
    OtherErr(String),
    Panic(String),
}

pub struct Measure {
    pub res: Res,
    pub iterations: u64,
    pub facts: usize,
    pub now_ns: u64,
    pub ticks: u64,
    pub ticks_at_deadline: Option<u64>,
}

#[cfg(feature = "hooks")]
fn stats() -> (u64, u64, u64, Option<u64>) {
    biscuit_auth::verif_hooks::clock_stats()
}
#[cfg(not(feature = "hooks"))]
fn stats() -> (u64, u64, u64, Option<u64>) {
    (0, 0, 0, None)
}

fn classify<T>(r: Result<Result<T, error::Token>, String>) -> Res {
    match r {
        Err(p) => Res::Panic(p),
        Ok(Ok(_)) => Res::Completed,
        Ok(Err(error::Token::FailedLogic(_))) => Res::Completed,
        Ok(Err(error::Token::RunLimit(l))) => Res::RunLimit(format!("{l:?}")),
        Ok(Err(e)) => Res::OtherErr(format!("{e:?}")),
    }
}

pub fn do_call(a: &mut Authorizer, c: Call, p: &Prog) -> Res {
    let big = crate::c04::big_limits();
    match c {
        Call::Run => classify(guard(|| a.run().map(|_| ()))),
        Call::Authorize => classify(guard(|| a.authorize().map(|_| ()))),
        Call::AuthorizeWithBigLimits => classify(guard(|| a.authorize_with_limits(big.clone()).map(|_| ()))),
        Call::Query => classify(guard(|| a.query::<_, b::Fact, _>(p.query.as_str()).map(|_| ()))),
        Call::QueryAll => classify(guard(|| a.query_all::<_, b::Fact, _>(p.query.as_str()).map(|_| ()))),
        Call::QueryWithBigLimits => classify(guard(|| a.query_with_limits::<_, b::Fact, _>(p.query.as_str(), big.clone()).map(|_| ()))),
        Call::CloneIt => {
            *a = a.clone();
            Res::Completed
        }
        Call::SnapshotRestore => {
            let r = guard(|| {
                let s = a.to_raw_snapshot().map_err(error::Token::Format)?;
                Authorizer::from_raw_snapshot(&s)
            });
            match r {
                Err(p) => Res::Panic(p),
                Ok(Ok(n)) => {
                    *a = n;
                    Res::Completed
                }
                Ok(Err(e)) => Res::OtherErr(format!("{e:?}")),
            }
        }
    }
}

pub fn build(p: &Prog, token: Option<&Biscuit>, limits: &AuthorizerLimits) -> Result<Authorizer, String> {
    let mut ab = AuthorizerBuilder::new().limits(limits.clone());
    if !p.in_token {
        ab = ab.code(&p.code).map_err(|e| format!("{e:?}"))?;
    }
    ab = ab.code("allow if true;").map_err(|e| format!("{e:?}"))?;
    match token {
        Some(t) => ab.build(t),
        None => ab.build_unauthenticated(),
    }
    .map_err(|e| format!("{e:?}"))
}

pub fn token_for(p: &Prog) -> Option<Biscuit> {
    if !p.in_token {
        return None;
    }
    // authority carries nothing, block 1 carries the program (trusting previous so that it sees itself only)
    let t = b::BiscuitBuilder::new()
        .code(&p.authority_code)
        .unwrap()
        .build_with_key_pair(&root(Alg::Ed), SymbolTable::new(), &key(Alg::Ed, ROLE_NEXT, 0))
        .unwrap();
    Some(t.append_with_keypair(&key(Alg::Ed, ROLE_NEXT, 1), b::BlockBuilder::new().code(&p.code).unwrap()).unwrap())
}

#[cfg(feature = "hooks")]
fn install(tick_ns: u64, deadline_ns: u64) {
    use biscuit_auth::verif_hooks as vh;
    vh::install_clock(0, tick_ns, None);
    vh::set_deadline(deadline_ns);
}
#[cfg(not(feature = "hooks"))]
fn install(_t: u64, _d: u64) {}

fn call_is_budgeted(c: Call) -> bool {
    matches!(c, Call::Run | Call::Authorize | Call::Query | Call::QueryAll)
}

pub fn run(tier: Tier) {
    let ctx = Ctx::new("C10", tier);
    #[cfg(not(feature = "hooks"))]
    {
        eprintln!("MACHINERY: C10 needs the hooks build");
        std::process::exit(2);
    }
    let progs = programs(tier);
    let depth = tier.pick(2, 3);
    let executions = AtomicUsize::new(0);
    let calls_made = AtomicUsize::new(0);
    let outcomes: std::sync::Mutex<BTreeMap<String, usize>> = std::sync::Mutex::new(BTreeMap::new());
    let samples_out = Samples::new(6);

    // all call sequences up to depth
    let mut seqs: Vec<Vec<Call>> = vec![];
    let mut frontier: Vec<Vec<Call>> = vec![vec![]];
    for _ in 0..depth {
        let mut next = vec![];
        for s in &frontier {
            for c in CALLS {
                let mut n = s.clone();
                n.push(c);
                next.push(n);
            }
        }
        seqs.extend(next.iter().cloned());
        frontier = next;
    }

    // plus, beyond the depth: every pair of calls with a clone or a snapshot round trip in between
    // (what was consumed before the copy must still count after it)
    for c1 in CALLS.iter().filter(|c| !matches!(c, Call::CloneIt | Call::SnapshotRestore)) {
        for mid in [Call::CloneIt, Call::SnapshotRestore] {
            for c2 in CALLS.iter().filter(|c| !matches!(c, Call::CloneIt | Call::SnapshotRestore)) {
                let sq = vec![*c1, mid, *c2];
                if !seqs.contains(&sq) {
                    seqs.push(sq);
                }
            }
        }
    }
    // and the same budgeted call repeated (a caller retrying after a run-limit error), up to 8 times
    for c in [Call::Run, Call::Authorize, Call::Query] {
        for n in 3..=8usize {
            let sq = vec![c; n];
            if !seqs.contains(&sq) {
                seqs.push(sq);
            }
        }
    }
    let prog_ticks: Vec<(&Prog, u64)> = progs.iter().flat_map(|p| TICKS_NS.iter().map(move |t| (p, *t))).collect();
    prog_ticks.par_iter().for_each(|(p, tick_ns)| {
        let p: &Prog = p;
        let tick_ns = *tick_ns;
        let token = token_for(p);
        // unconstrained baseline: iterations L, facts N, virtual time T of run + authorize + query
        install(tick_ns, HOUR_NS);
        let mut a = build(p, token.as_ref(), &crate::c04::big_limits()).expect("program builds");
        let r0 = do_call(&mut a, Call::Authorize, p);
        assert_eq!(r0, Res::Completed, "baseline authorize of {} must complete: {r0:?}", p.name);
        let l = a.iterations();
        let n = a.fact_count() as u64;
        let (_, t_ns, ticks0, _) = stats();
        let _ = do_call(&mut a, Call::Query, p);
        let _world_size = a.fact_count();
        let initial_facts = build(p, token.as_ref(), &crate::c04::big_limits()).map(|a| a.fact_count()).unwrap_or(0);

        let mut lims: Vec<Lim> = vec![];
        let unl_i = u64::MAX;
        let unl_f = u64::MAX;
        let unl_t = Duration::from_nanos(HOUR_NS);
        let mut iters: Vec<(String, u64)> = vec![("0".into(), 0), ("1".into(), 1), ("L-1".into(), l.saturating_sub(1)), ("L".into(), l), ("L+1".into(), l + 1), ("L+2".into(), l + 2)];
        iters.dedup_by(|a, b| a.1 == b.1);
        for (cl, v) in &iters {
            lims.push(Lim { class: format!("max_iterations={cl}"), limits: AuthorizerLimits { max_iterations: *v, max_facts: unl_f, max_time: unl_t } });
        }
        for (cl, v) in [("0", 0u64), ("1", 1), ("N-1", n.saturating_sub(1)), ("N", n), ("N+1", n + 1)] {
            lims.push(Lim { class: format!("max_facts={cl}"), limits: AuthorizerLimits { max_iterations: unl_i, max_facts: v, max_time: unl_t } });
        }
        for (cl, v) in [("0", 0u64), ("1tick", tick_ns), ("T-1tick", t_ns.saturating_sub(tick_ns)), ("T", t_ns), ("T+1tick", t_ns + tick_ns), ("2T", 2 * t_ns + tick_ns)] {
            lims.push(Lim { class: format!("max_time={cl}"), limits: AuthorizerLimits { max_iterations: unl_i, max_facts: unl_f, max_time: Duration::from_nanos(v) } });
        }
        for (cl, v) in [("L-1", l.saturating_sub(1)), ("L-2", l.saturating_sub(2))] {
            if l >= 2 {
                lims.push(Lim { class: format!("max_iterations={cl}+max_time=0"), limits: AuthorizerLimits { max_iterations: v, max_facts: unl_f, max_time: Duration::from_nanos(0) } });
                lims.push(Lim { class: format!("max_iterations={cl}+max_time=1tick"), limits: AuthorizerLimits { max_iterations: v, max_facts: unl_f, max_time: Duration::from_nanos(tick_ns) } });
            }
        }
        lims.push(Lim { class: "all-at-boundary".into(), limits: AuthorizerLimits { max_iterations: l + 1, max_facts: n + 1, max_time: Duration::from_nanos(t_ns + tick_ns) } });
        lims.push(Lim { class: "all-below-boundary".into(), limits: AuthorizerLimits { max_iterations: l, max_facts: n, max_time: Duration::from_nanos(t_ns) } });
        lims.push(Lim { class: "default-like".into(), limits: AuthorizerLimits { max_iterations: 100, max_facts: 1000, max_time: Duration::from_nanos(HOUR_NS) } });

        if p.name.starts_with("chain(3)") || p.name.starts_with("join(6,4)") {
            samples_out.push(|| json!({"program": p.name, "code": p.code, "baseline": {"iterations": l, "facts": n, "virtual_time_ns": t_ns, "ticks": ticks0}, "limit_classes": lims.iter().map(|l| l.class.clone()).collect::<Vec<_>>(), "sequences": seqs.len()}));
        }

        lims.par_iter().for_each(|lim| {
            let max_time_ns = lim.limits.max_time.as_nanos() as u64;
            for seq in &seqs {
                executions.fetch_add(1, Ordering::Relaxed);
                install(tick_ns, max_time_ns);
                let mut a = match guard(|| build(p, token.as_ref(), &lim.limits)) {
                    Ok(Ok(a)) => a,
                    Ok(Err(e)) => {
                        ctx.violation_lazy(format!("C10/build-refused/{}/{}", p.family, lim.class), || json!({"program": p.name, "error": e}));
                        continue;
                    }
                    Err(pn) => {
                        ctx.violation_lazy(format!("C10/panic/{}", panic_site(&pn)), || json!({"program": p.name, "limits": lim.class, "panic": pn}));
                        continue;
                    }
                };
                let mut prev_fail: Option<(Call, String)> = None;
                let mut history: Vec<String> = vec![];
                for (ci, c) in seq.iter().enumerate() {
                    calls_made.fetch_add(1, Ordering::Relaxed);
                    let (_, _, ticks_before, dl_before) = stats();
                    let res = do_call(&mut a, *c, p);
                    let (_, now_ns, ticks, ticks_at_deadline) = stats();
                    let m = Measure { res: res.clone(), iterations: a.iterations(), facts: a.fact_count(), now_ns, ticks, ticks_at_deadline };
                    history.push(format!("{c:?}->{}", match &res { Res::Completed => "ok".to_string(), Res::RunLimit(l) => l.clone(), Res::OtherErr(e) => format!("err:{}", e.chars().take(40).collect::<String>()), Res::Panic(p) => format!("PANIC {}", panic_site(p)) }));
                    let ctxt = if let Some((_, pl)) = &prev_fail { format!("{c:?}-after-a-call-failed-with-{pl}") } else { format!("{c:?}") };
                    let detail = || json!({"program": p.name, "code": p.code, "limits": {"class": lim.class, "max_iterations": lim.limits.max_iterations, "max_facts": lim.limits.max_facts, "max_time_ns": max_time_ns}, "calls": history, "after_last_call": {"iterations": m.iterations, "fact_count": m.facts, "virtual_time_ns": m.now_ns, "ticks": m.ticks}, "baseline": {"L": l, "N": n, "T_ns": t_ns}});
                    {
                        let mut o = outcomes.lock().unwrap();
                        *o.entry(format!("{:?}", match &res { Res::Completed => "completed".to_string(), Res::RunLimit(l) => l.clone(), Res::OtherErr(_) => "other-error".into(), Res::Panic(_) => "panic".into() })).or_insert(0) += 1;
                    }
                    match &res {
                        Res::Panic(pn) => {
                            ctx.violation_lazy(format!("C10/panic/{}/{}/{}/{}", panic_site(pn), p.family, lim.class, ctxt), detail);
                            break;
                        }
                        Res::OtherErr(e) => {
                            ctx.violation_lazy(format!("C10/unexpected-error/{}/{}/{}", p.family, lim.class, ctxt), || json!({"detail": detail(), "error": e}));
                            break;
                        }
                        Res::Completed => {
                            // S4: the fixpoint of this program needs L productive iterations and the budget is cumulative over
                            // the calls on one authorizer: with max_iterations < L no budgeted call can ever complete
                            if call_is_budgeted(*c) && lim.limits.max_iterations < l && !seq[..ci].iter().any(|x| matches!(x, Call::AuthorizeWithBigLimits | Call::QueryWithBigLimits)) {
                                ctx.violation_lazy(format!("C10/S4-completed-with-an-iteration-budget-below-what-the-program-needs/{}", p.family), detail);
                            }
                            if call_is_budgeted(*c) {
                                // S1: completion only within the budgets, counted cumulatively
                                if m.iterations > lim.limits.max_iterations {
                                    ctx.violation_lazy(format!("C10/S1-iterations-over-budget/{}/{}/{}", p.family, lim.class, ctxt), detail);
                                }
                                if m.facts as u64 > lim.limits.max_facts {
                                    ctx.violation_lazy(format!("C10/S1-facts-over-budget/{}/{}/{}", p.family, lim.class, ctxt), detail);
                                }
                            }
                            if call_is_budgeted(*c) && *c != Call::Run && !seq[..ci].iter().any(|x| matches!(x, Call::AuthorizeWithBigLimits | Call::QueryWithBigLimits)) && m.now_ns > max_time_ns {
                                // one key for "time spent by a failed call is forgotten", one per call otherwise
                                // the time a failed call consumed is never recorded: every later call of the sequence inherits that
                                let failed_before = history[..history.len() - 1].iter().any(|h| !h.ends_with("->ok"));
                                let k = if prev_fail.is_some() || failed_before { "after-a-failed-call".to_string() } else { format!("{c:?}") };
                                ctx.violation_lazy(format!("C10/S1-time-over-budget/{k}"), detail);
                            }
                        }
                        Res::RunLimit(_) => {}
                    }
                    // S2 promptness: work done after the deadline passed, before this call returned
                    if call_is_budgeted(*c) && dl_before.is_none() {
                        if let Some(td) = ticks_at_deadline {
                            let overshoot = ticks.saturating_sub(td.max(ticks_before));
                            let allowance = 32 * (initial_facts as u64 + p.body_preds as u64 + 1);
                            if overshoot > allowance {
                                ctx.violation_lazy(format!("C10/S2-not-prompt/{}", p.family), || json!({"detail": detail(), "overshoot_ticks": overshoot, "allowance_ticks": allowance}));
                            }
                        }
                    }
                    if let Res::RunLimit(l) = &res {
                        prev_fail = Some((*c, l.clone()));
                    } else if call_is_budgeted(*c) {
                        prev_fail = None;
                    }
                }
            }
        });
    });

    #[cfg(feature = "hooks")]
    biscuit_auth::verif_hooks::remove_clock();
    let ex = executions.load(Ordering::Relaxed);
    let cov = json!({
        "states": ex,
        "transitions": calls_made.load(Ordering::Relaxed),
        "traces_validated_against_impl": ex,
        "programs": progs.len(),
        "program_names": progs.iter().map(|p| p.name.clone()).collect::<Vec<_>>(),
        "call_sequences": seqs.len(),
        "max_sequence_depth": depth,
        "call_alphabet": CALLS.iter().map(|c| format!("{c:?}")).collect::<Vec<_>>(),
        "call_outcomes": outcomes.into_inner().unwrap(),
        "exhaustive": true,
        "samples": samples_out.take(),
        "rule": "every call sequence up to the depth (plus every pair of calls with a clone or a snapshot round trip in between) over {run, authorize, authorize_with_limits(big), query, query_all, query_with_limits(big), clone, snapshot->restore} on one Authorizer x every program (chains needing L iterations, fan-out, k-way joins = one expensive iteration, preloaded facts, mixed; in the authorizer or in a token block) x every limit class (each budget at 0, 1, boundary-1, boundary, boundary+1 around the program's own needs, others unlimited; all at / below the boundary); virtual clock: each candidate examined by the join iterator costs 1 microsecond in one pass and 300 ms in a second pass (consumed time then crosses whole seconds), reads are free; invariants S1 (completion only within cumulative budgets), S4 (no call completes when max_iterations is below the number of iterations the program needs, however often the call is retried), S2 (overshoot after the deadline <= 32 x (facts + body predicates + 1) ticks), no panic",
    });
    ctx.finish(
        "model_checking",
        cov,
        vec![
            "virtual time replaces real time: it advances only at work ticks inside the join iterator (H3), which all lie inside measured intervals".into(),
            "the promptness allowance (32 x (facts + body predicates + 1) ticks) is an operationalisation of 'promptly' that separates per-iteration clock checks from per-candidate ones".into(),
            "Duration::MAX / limits that overflow Instant + Duration are outside the statement".into(),
        ],
    );
}

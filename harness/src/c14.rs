//! C14 — printed Datalog parses back to the same program.
use crate::common::*;
use crate::tok::*;
use biscuit_auth::builder as b;
use biscuit_auth::builder::{MapKey, Term};
use biscuit_auth::datalog::SymbolTable;
use biscuit_auth::{AuthorizerBuilder, Biscuit};
use rayon::prelude::*;
use serde_json::json;
use std::collections::{BTreeMap, BTreeSet, HashMap};
use std::convert::TryFrom;
use std::sync::atomic::{AtomicUsize, Ordering};

const ALPHABET: [&str; 16] = ["a", "\"", "\\", "\n", "\t", " ", ")", ",", ";", "$", "{", "}", "/", "*", "é", "🍪"];

pub fn hostile_strings(max_len: usize) -> Vec<String> {
    let mut out = vec![String::new()];
    let mut frontier = vec![String::new()];
    for _ in 0..max_len {
        let mut next = vec![];
        for s in &frontier {
            for c in ALPHABET {
                next.push(format!("{s}{c}"));
            }
        }
        out.extend(next.iter().cloned());
        frontier = next;
    }
    out
}

fn string_class(s: &str) -> String {
    let mut c: BTreeSet<&str> = BTreeSet::new();
    for ch in s.chars() {
        c.insert(match ch {
            '"' => "quote",
            '\\' => "backslash",
            '\n' => "newline",
            '\t' => "tab",
            _ => "other",
        });
    }
    if s.is_empty() {
        return "empty".into();
    }
    c.into_iter().collect::<Vec<_>>().join("+")
}

fn set(v: Vec<Term>) -> Term {
    Term::Set(v.into_iter().collect())
}

pub fn depth1_terms() -> Vec<(&'static str, Term)> {
    vec![
        ("int-0", b::int(0)),
        ("int-neg", b::int(-1)),
        ("int-max", b::int(i64::MAX)),
        ("int-min", b::int(i64::MIN)),
        ("str-empty", b::string("")),
        ("str", b::string("a b")),
        ("date-0", Term::Date(0)),
        ("date-2038", Term::Date(1 << 31)),
        ("date-9999", Term::Date(253402300799)),
        ("bytes-empty", Term::Bytes(vec![])),
        ("bytes", Term::Bytes(vec![0, 255])),
        ("true", Term::Bool(true)),
        ("false", Term::Bool(false)),
        ("null", Term::Null),
        ("set-empty", set(vec![])),
        ("array-empty", Term::Array(vec![])),
        ("map-empty", Term::Map(BTreeMap::new())),
    ]
}

pub fn all_terms() -> Vec<(String, Term)> {
    let d1 = depth1_terms();
    let mut out: Vec<(String, Term)> = d1.iter().map(|(n, t)| (n.to_string(), t.clone())).collect();
    for (n, t) in &d1 {
        let scalar = !matches!(t, Term::Set(_) | Term::Array(_) | Term::Map(_));
        if scalar && !matches!(t, Term::Null) {
            out.push((format!("set-of-one-{n}"), set(vec![t.clone()])));
        }
        out.push((format!("array-of-one-{n}"), Term::Array(vec![t.clone()])));
        out.push((format!("map-str-key-{n}"), Term::Map([(MapKey::Str("k".into()), t.clone())].into_iter().collect())));
        out.push((format!("map-int-key-{n}"), Term::Map([(MapKey::Integer(-3), t.clone())].into_iter().collect())));
    }
    out.push(("set-of-two-ints".into(), set(vec![b::int(1), b::int(2)])));
    out.push(("set-of-two-strings".into(), set(vec![b::string("a"), b::string("b")])));
    out.push(("array-mixed".into(), Term::Array(vec![b::int(1), b::string("a"), Term::Null, Term::Array(vec![Term::Bool(true)])])));
    out.push(("map-two-keys".into(), Term::Map([(MapKey::Str("a".into()), b::int(1)), (MapKey::Integer(2), Term::Array(vec![]))].into_iter().collect())));
    out.push(("map-empty-str-key".into(), Term::Map([(MapKey::Str("".into()), b::int(1))].into_iter().collect())));
    out
}

fn q(body: Vec<b::Predicate>, exprs: Vec<b::Expression>, scopes: Vec<b::Scope>) -> b::Rule {
    let empty: &[Term] = &[];
    b::Rule::new(b::pred("query", empty), body, exprs, scopes)
}

/// items in which a term `t` appears at one position
fn items_with_term(t: &Term) -> Vec<(&'static str, Item)> {
    let x = b::var("x");
    let strict_eq = |t: &Term| b::Expression { ops: vec![b::Op::Value(t.clone()), b::Op::Value(t.clone()), b::Op::Binary(b::Binary::Equal)] };
    vec![
        ("fact", Item::Fact(b::fact("p", &[t.clone()]))),
        ("rule-head", Item::Rule(b::rule("r", &[t.clone()], &[b::pred("p", &[x.clone()])]))),
        ("rule-body", Item::Rule(b::rule("r", &[x.clone()], &[b::pred("p", &[x.clone(), t.clone()])]))),
        ("check-body", Item::Check(b::Check { queries: vec![q(vec![b::pred("p", &[t.clone()])], vec![], vec![])], kind: b::CheckKind::One })),
        ("policy-body", Item::Policy(b::Policy { queries: vec![q(vec![b::pred("p", &[t.clone()])], vec![], vec![])], kind: b::PolicyKind::Allow })),
        ("expression-operand", Item::Check(b::Check { queries: vec![q(vec![b::pred("p", &[x.clone()])], vec![strict_eq(t)], vec![])], kind: b::CheckKind::One })),
    ]
}

#[derive(Clone, Debug, PartialEq)]
pub enum Item {
    Fact(b::Fact),
    Rule(b::Rule),
    Check(b::Check),
    Policy(b::Policy),
}

impl Item {
    pub fn print(&self) -> Result<String, String> {
        guard(|| match self {
            Item::Fact(f) => f.to_string(),
            Item::Rule(r) => r.to_string(),
            Item::Check(c) => c.to_string(),
            Item::Policy(p) => p.to_string(),
        })
    }
    pub fn parse_like(&self, s: &str) -> Result<Item, String> {
        let r = guard(|| match self {
            Item::Fact(_) => b::Fact::try_from(s).map(Item::Fact).map_err(|e| format!("{e:?}")),
            Item::Rule(_) => b::Rule::try_from(s).map(Item::Rule).map_err(|e| format!("{e:?}")),
            Item::Check(_) => b::Check::try_from(s).map(Item::Check).map_err(|e| format!("{e:?}")),
            Item::Policy(_) => b::Policy::try_from(s).map(Item::Policy).map_err(|e| format!("{e:?}")),
        });
        match r {
            Ok(x) => x,
            Err(p) => Err(format!("PANIC {p}")),
        }
    }
    /// structural comparison (parameter bookkeeping maps excluded)
    pub fn same(&self, o: &Item) -> bool {
        fn rule_eq(a: &b::Rule, c: &b::Rule) -> bool {
            a.head == c.head && a.body == c.body && a.expressions == c.expressions && a.scopes == c.scopes
        }
        match (self, o) {
            (Item::Fact(a), Item::Fact(c)) => a.predicate == c.predicate,
            (Item::Rule(a), Item::Rule(c)) => rule_eq(a, c),
            (Item::Check(a), Item::Check(c)) => a.kind == c.kind && a.queries.len() == c.queries.len() && a.queries.iter().zip(c.queries.iter()).all(|(x, y)| rule_eq(x, y)),
            (Item::Policy(a), Item::Policy(c)) => a.kind == c.kind && a.queries.len() == c.queries.len() && a.queries.iter().zip(c.queries.iter()).all(|(x, y)| rule_eq(x, y)),
            _ => false,
        }
    }
}

/// the three printers: builder Display, token path, authorizer dump
fn round_trip(ctx: &Ctx, family: &str, class: &str, item: &Item, through_token: bool, counters: &Counters) {
    counters.items.fetch_add(1, Ordering::Relaxed);
    // one key per (family root, input class): the position and the failing printer are in the detail
    let key = |what: &str| {
        let _ = what;
        format!("C14/{}/{class}", family.split('/').next().unwrap_or(family))
    };
    // (1) builder Display
    let printed = match item.print() {
        Ok(s) => s,
        Err(p) => {
            ctx.violation_lazy(format!("C14/panic/{}", panic_site(&p)), || json!({"item": format!("{item:?}"), "panic": p}));
            return;
        }
    };
    match item.parse_like(&printed) {
        Err(e) => ctx.violation_lazy(key("printed-text-does-not-parse"), || json!({"family": family, "what": "printed text does not parse", "item": format!("{item:?}"), "printed": printed, "error": e})),
        Ok(back) => {
            if !back.same(item) {
                ctx.violation_lazy(key("parses-as-a-different-item"), || json!({"family": family, "what": "printed text parses as a different item", "item": format!("{item:?}"), "printed": printed, "parsed_back": format!("{back:?}")}));
            } else if back.print().ok().as_deref() != Some(&printed) {
                ctx.violation_lazy(key("second-print-differs"), || json!({"printed": printed, "again": back.print().ok()}));
            }
        }
    }
    if !through_token {
        return;
    }
    // (2) token path: Biscuit::print_block_source -> BlockBuilder::code
    counters.token_paths.fetch_add(1, Ordering::Relaxed);
    let mut bb = b::BlockBuilder::new();
    match item {
        Item::Fact(f) => bb.facts.push(f.clone()),
        Item::Rule(r) => bb.rules.push(r.clone()),
        Item::Check(c) => bb.checks.push(c.clone()),
        Item::Policy(_) => {}
    }
    if !matches!(item, Item::Policy(_)) {
        let r = guard(|| {
            let mut bld = b::BiscuitBuilder::new();
            for f in &bb.facts {
                bld = bld.fact(f.clone()).map_err(|e| format!("add: {e:?}"))?;
            }
            for r in &bb.rules {
                bld = bld.rule(r.clone()).map_err(|e| format!("add: {e:?}"))?;
            }
            for c in &bb.checks {
                bld = bld.check(c.clone()).map_err(|e| format!("add: {e:?}"))?;
            }
            let t = bld.build_with_key_pair(&root(Alg::Ed), SymbolTable::new(), &key_pool_next()).map_err(|e| format!("build: {e:?}"))?;
            let t = Biscuit::from(t.to_vec().map_err(|e| format!("{e:?}"))?, root(Alg::Ed).public()).map_err(|e| format!("reload: {e:?}"))?;
            let src = t.print_block_source(0).map_err(|e| format!("print: {e:?}"))?;
            let back = b::BlockBuilder::new().code(&src).map_err(|e| format!("source `{src}` does not parse: {e:?}"))?;
            Ok::<_, String>((src, back))
        });
        match r {
            Err(p) => ctx.violation_lazy(format!("C14/panic/{}", panic_site(&p)), || json!({"item": printed, "panic": p})),
            Ok(Err(e)) => {
                if e.starts_with("add:") || e.starts_with("build:") {
                    ctx.observe(format!("builder refuses an item of family {family}: {}", e.chars().take(60).collect::<String>()));
                } else {
                    ctx.violation_lazy(key("token-source-does-not-parse"), || json!({"item": printed, "error": e}))
                }
            }
            Ok(Ok((src, back))) => {
                let got: Vec<Item> = back.facts.iter().cloned().map(Item::Fact).chain(back.rules.iter().cloned().map(Item::Rule)).chain(back.checks.iter().cloned().map(Item::Check)).collect();
                if got.len() != 1 || !got[0].same(item) {
                    ctx.violation_lazy(key("token-source-parses-as-different-code"), || json!({"item": printed, "block_source": src, "parsed_items": got.iter().map(|g| format!("{g:?}")).collect::<Vec<_>>()}));
                }
            }
        }
    }
    // (2b) items naming public keys, carried by a later first-party block and by a third-party block of a token
    // whose key table already holds other keys: the block source printed by Biscuit and by UnverifiedBiscuit
    // (in memory and after a reload) parses back to the item
    if !matches!(item, Item::Policy(_)) && (printed.contains("ed25519/") || printed.contains("secp256r1/")) {
        for third_party in [false, true] {
            let r = guard(|| {
                let e = |x: biscuit_auth::error::Token| format!("{x:?}");
                let k3 = pk_str(&ext_key(Alg::Ed, 1).public());
                let k4 = pk_str(&ext_key(Alg::P256, 1).public());
                let mut t = b::BiscuitBuilder::new().code("auth(0);").map_err(e)?.build_with_key_pair(&root(Alg::Ed), SymbolTable::new(), &crate::tok::key(Alg::Ed, ROLE_NEXT, 50)).map_err(e)?;
                t = t.append_with_keypair(&crate::tok::key(Alg::Ed, ROLE_NEXT, 51), b::BlockBuilder::new().code(format!("check if true trusting {k3}, {k4};")).map_err(e)?).map_err(e)?;
                if third_party {
                    let req = t.third_party_request().map_err(e)?;
                    let resp = req.create_block(&ext_key(Alg::Ed, 1).private(), bb.clone()).map_err(e)?;
                    t = t.append_third_party_with_keypair(ext_key(Alg::Ed, 1).public(), resp, crate::tok::key(Alg::Ed, ROLE_NEXT, 52)).map_err(e)?;
                } else {
                    t = t.append_with_keypair(&crate::tok::key(Alg::Ed, ROLE_NEXT, 52), bb.clone()).map_err(e)?;
                }
                let bytes = t.to_vec().map_err(e)?;
                let reloaded = Biscuit::from(&bytes, root(Alg::Ed).public()).map_err(e)?;
                let unverified = biscuit_auth::UnverifiedBiscuit::from(&bytes).map_err(e)?;
                let sources = vec![
                    ("Biscuit in memory", t.print_block_source(2).map_err(e)?),
                    ("Biscuit reloaded", reloaded.print_block_source(2).map_err(e)?),
                    ("UnverifiedBiscuit", unverified.print_block_source(2).map_err(e)?),
                ];
                let mut out = vec![];
                for (who, src) in sources {
                    let back = b::BlockBuilder::new().code(&src).map_err(|x| format!("{who}: source `{src}` does not parse: {x:?}"))?;
                    let got: Vec<Item> = back.facts.iter().cloned().map(Item::Fact).chain(back.rules.iter().cloned().map(Item::Rule)).chain(back.checks.iter().cloned().map(Item::Check)).collect();
                    out.push((who, src, got));
                }
                Ok::<_, String>(out)
            });
            match r {
                Err(p) => ctx.violation_lazy(format!("C14/panic/{}", panic_site(&p)), || json!({"item": printed, "panic": p})),
                Ok(Err(e)) => ctx.violation_lazy(key("token-source-does-not-parse"), || json!({"item": printed, "in_third_party_block": third_party, "error": e})),
                Ok(Ok(views)) => {
                    for (who, src, got) in views {
                        if got.len() != 1 || !got[0].same(item) {
                            ctx.violation_lazy(key("token-source-parses-as-different-code"), || json!({"item": printed, "printed_by": who, "in_third_party_block": third_party, "after_a_block_trusting_other_keys": true, "block_source": src}));
                        }
                    }
                }
            }
        }
    }
    // (3) authorizer dump_code -> AuthorizerBuilder::code
    counters.authorizer_paths.fetch_add(1, Ordering::Relaxed);
    let r = guard(|| {
        let mut ab = AuthorizerBuilder::new();
        ab = match item {
            Item::Fact(f) => ab.fact(f.clone()),
            Item::Rule(r) => ab.rule(r.clone()),
            Item::Check(c) => ab.check(c.clone()),
            Item::Policy(p) => ab.policy(p.clone()),
        }
        .map_err(|e| format!("add: {e:?}"))?;
        let code1 = ab.dump_code();
        let ab2 = AuthorizerBuilder::new().code(&code1).map_err(|e| format!("builder dump `{code1}` does not parse: {e:?}"))?;
        let code2 = ab2.dump_code();
        let a = ab.build_unauthenticated().map_err(|e| format!("build: {e:?}"))?;
        let dumped = a.dump_code();
        let a2 = AuthorizerBuilder::new().code(&dumped).map_err(|e| format!("authorizer dump `{dumped}` does not parse: {e:?}"))?.build_unauthenticated().map_err(|e| format!("rebuild: {e:?}"))?;
        Ok::<_, String>((code1, code2, dumped, a2.dump_code()))
    });
    match r {
        Err(p) => ctx.violation_lazy(format!("C14/panic/{}", panic_site(&p)), || json!({"item": printed, "panic": p})),
        Ok(Err(e)) => {
            if e.starts_with("add:") || e.starts_with("build:") {
                ctx.observe(format!("authorizer builder refuses an item of family {family}: {}", e.chars().take(60).collect::<String>()));
            } else {
                ctx.violation_lazy(key("authorizer-dump-does-not-parse"), || json!({"item": printed, "error": e}))
            }
        }
        Ok(Ok((c1, c2, d1, d2))) => {
            if c1 != c2 {
                ctx.violation_lazy(key("builder-dump-changes-after-reparse"), || json!({"first": c1, "second": c2}));
            }
            if d1 != d2 {
                ctx.violation_lazy(key("authorizer-dump-changes-after-reparse"), || json!({"first": d1, "second": d2}));
            }
        }
    }
}

fn key_pool_next() -> biscuit_auth::KeyPair {
    key(Alg::Ed, ROLE_NEXT, 0)
}

pub struct Counters {
    pub items: AtomicUsize,
    pub token_paths: AtomicUsize,
    pub authorizer_paths: AtomicUsize,
}

/// expression source texts: derivations of depth <= `depth`
pub fn expression_sources(depth: usize) -> Vec<(String, String)> {
    let terms = ["1", "-2", "\"a\"", "$x", "true", "{1, 2}", "[1, 2]", "{\"k\": 1}", "null", "hex:01", "2020-01-01T00:00:00Z"];
    let few = ["1", "$x", "\"a\"", "{1, 2}", "true"];
    let infix = ["||", "&&", "<=", ">=", "<", ">", "===", "!==", "==", "!=", "^", "|", "&", "+", "-", "*", "/"];
    let methods = ["contains", "starts_with", "ends_with", "matches", "intersection", "union", "get", "extern::f"];
    let mut out: Vec<(String, String)> = vec![];
    let mut e1: Vec<(String, String)> = vec![];
    for t in terms {
        out.push(("term".into(), t.to_string()));
    }
    for op in infix {
        for a in few {
            for c in few {
                e1.push((format!("infix {op}"), format!("{a} {op} {c}")));
            }
        }
    }
    for m in methods {
        for a in few {
            for c in few {
                e1.push((format!("method {m}"), format!("{a}.{m}({c})")));
            }
        }
    }
    for a in few {
        e1.push(("unary !".into(), format!("!{a}")));
        e1.push(("unary length".into(), format!("{a}.length()")));
        e1.push(("unary type".into(), format!("{a}.type()")));
        e1.push(("unary extern".into(), format!("{a}.extern::f()")));
        e1.push(("parens".into(), format!("({a})")));
        e1.push(("closure all".into(), format!("{a}.all($p -> $p > 0)")));
        e1.push(("closure any".into(), format!("{a}.any($p -> $p == {a})")));
    }
    out.extend(e1.iter().cloned());
    if depth >= 2 {
        // one representative per shape as operand of every operator, on both sides, bare and parenthesised
        let mut reps: BTreeMap<String, String> = BTreeMap::new();
        for (k, s) in &e1 {
            reps.entry(k.clone()).or_insert(s.clone());
        }
        for (k, r) in &reps {
            for op in infix {
                for t in ["1", "$x"] {
                    out.push((format!("{k} as left of {op}"), format!("{r} {op} {t}")));
                    out.push((format!("{k} as right of {op}"), format!("{t} {op} {r}")));
                    out.push((format!("({k}) as left of {op}"), format!("({r}) {op} {t}")));
                    out.push((format!("({k}) as right of {op}"), format!("{t} {op} ({r})")));
                }
            }
            for m in methods {
                out.push((format!("{k} as receiver of {m}"), format!("({r}).{m}(1)")));
                out.push((format!("{k} as argument of {m}"), format!("$x.{m}({r})")));
            }
            out.push((format!("! of ({k})"), format!("!({r})")));
            out.push((format!("length of ({k})"), format!("({r}).length()")));
            out.push((format!("{k} in closure body"), format!("[1].any($p -> {r})")));
            out.push((format!("{k} in nested closure"), format!("[1].all($p -> [2].any($q -> {r}))")));
        }
    }
    if depth >= 3 {
        let snapshot: Vec<(String, String)> = out.iter().filter(|(k, _)| k.contains(" as ")).step_by(7).cloned().collect();
        for (k, r) in snapshot {
            for op in ["||", "&&", "==", "+", "*", "|"] {
                out.push((format!("[{k}] as left of {op}"), format!("{r} {op} 1")));
                out.push((format!("([{k}]) as right of {op}"), format!("1 {op} ({r})")));
            }
        }
    }
    out
}

pub fn run(tier: Tier) {
    let ctx = Ctx::new("C14", tier);
    let counters = Counters { items: AtomicUsize::new(0), token_paths: AtomicUsize::new(0), authorizer_paths: AtomicUsize::new(0) };
    let samples_out = Samples::new(8);

    // ---------------- (1) strings in every position
    let strings = hostile_strings(tier.pick(4, 5));
    let n_strings = strings.len();
    strings.par_iter().enumerate().for_each(|(i, s)| {
        let class = string_class(s);
        let t = b::string(s);
        let holders: Vec<(&str, Term)> = vec![
            ("plain", t.clone()),
            ("set-member", set(vec![t.clone()])),
            ("array-member", Term::Array(vec![t.clone()])),
            ("map-key", Term::Map([(MapKey::Str(s.clone()), b::int(1))].into_iter().collect())),
            ("map-value", Term::Map([(MapKey::Integer(1), t.clone())].into_iter().collect())),
        ];
        for (hn, holder) in holders {
            for (pos, item) in items_with_term(&holder) {
                // the token / authorizer paths for every string of length <= 2 and a sample beyond
                let through = s.chars().count() <= 2 || i % 11 == 0;
                round_trip(&ctx, &format!("string/{hn}/{pos}"), &class, &item, through && pos != "policy-body" || pos == "policy-body" && through, &counters);
            }
        }
        if i % 997 == 0 {
            samples_out.push(|| json!({"string": s, "printed_fact": b::fact("p", &[t.clone()]).to_string()}));
        }
    });

    // ---------------- (2) terms of depth <= 2 in every position
    let terms = all_terms();
    terms.par_iter().for_each(|(name, t)| {
        for (pos, item) in items_with_term(t) {
            round_trip(&ctx, &format!("term/{pos}"), name, &item, true, &counters);
        }
    });

    // ---------------- (3) expressions from the grammar
    let exprs = expression_sources(tier.pick(3, 3));
    let n_exprs = exprs.len();
    let parsed = AtomicUsize::new(0);
    exprs.par_iter().enumerate().for_each(|(i, (shape, src))| {
        let text = format!("check if p($x), {src}");
        match guard(|| b::Check::try_from(text.as_str())) {
            Ok(Ok(c)) => {
                parsed.fetch_add(1, Ordering::Relaxed);
                round_trip(&ctx, "expression", shape, &Item::Check(c.clone()), i % 5 == 0, &counters);
                // the same expression in a rule and a policy
                if let Ok(r) = b::Rule::try_from(format!("r($x) <- p($x), {src}").as_str()) {
                    round_trip(&ctx, "expression-in-rule", shape, &Item::Rule(r), false, &counters);
                }
                if i % 499 == 0 {
                    samples_out.push(|| json!({"source": text, "printed": c.to_string()}));
                }
            }
            Ok(Err(_)) => {} // not in the grammar (e.g. chained comparisons): nothing to round-trip
            Err(p) => ctx.violation_lazy(format!("C14/panic/{}", panic_site(&p)), || json!({"source": text, "panic": p})),
        }
    });

    // ---------------- (3b) every operator as a hand-built op sequence
    let mut built: Vec<(String, b::Expression)> = vec![];
    use b::Binary as B;
    let bins = vec![B::LessThan, B::GreaterThan, B::LessOrEqual, B::GreaterOrEqual, B::Equal, B::Contains, B::Prefix, B::Suffix, B::Regex, B::Add, B::Sub, B::Mul, B::Div, B::And, B::Or, B::Intersection, B::Union, B::BitwiseAnd, B::BitwiseOr, B::BitwiseXor, B::NotEqual, B::HeterogeneousEqual, B::HeterogeneousNotEqual, B::Get, B::Ffi("f".into())];
    for op in bins {
        built.push((format!("{op:?}"), b::Expression { ops: vec![b::Op::Value(b::var("x")), b::Op::Value(b::int(1)), b::Op::Binary(op)] }));
    }
    for op in [B::LazyAnd, B::LazyOr] {
        built.push((format!("{op:?}"), b::Expression { ops: vec![b::Op::Value(Term::Bool(true)), b::Op::Closure(vec![], vec![b::Op::Value(Term::Bool(false))]), b::Op::Binary(op)] }));
    }
    for op in [B::All, B::Any] {
        built.push((format!("{op:?}"), b::Expression { ops: vec![b::Op::Value(b::var("x")), b::Op::Closure(vec!["p".into()], vec![b::Op::Value(b::var("p"))]), b::Op::Binary(op)] }));
    }
    for op in [b::Unary::Negate, b::Unary::Parens, b::Unary::Length, b::Unary::TypeOf, b::Unary::Ffi("f".into())] {
        built.push((format!("{op:?}"), b::Expression { ops: vec![b::Op::Value(b::var("x")), b::Op::Unary(op)] }));
    }
    for (name, e) in &built {
        let item = Item::Check(b::Check { queries: vec![q(vec![b::pred("p", &[b::var("x")])], vec![e.clone()], vec![])], kind: b::CheckKind::One });
        round_trip(&ctx, "operator-op-sequence", name, &item, true, &counters);
    }

    // ---------------- (3c) AST-first operator trees: every pair (thorough: triple) of infix operators in both
    // nestings, as op sequences with parentheses exactly where the specification's precedence table
    // (|| < && < comparisons (non-associative) < ^ < | < & < + - < * /, left-associative) requires them.
    // The parser is not involved in building these, so a parser / printer pair that is self-consistent but
    // disagrees with the table is seen.
    {
        let infix: Vec<(&str, B, u8)> = vec![
            ("||", B::LazyOr, 0),
            ("&&", B::LazyAnd, 1),
            ("<=", B::LessOrEqual, 2),
            (">=", B::GreaterOrEqual, 2),
            ("<", B::LessThan, 2),
            (">", B::GreaterThan, 2),
            ("===", B::Equal, 2),
            ("!==", B::NotEqual, 2),
            ("==", B::HeterogeneousEqual, 2),
            ("!=", B::HeterogeneousNotEqual, 2),
            ("^", B::BitwiseXor, 3),
            ("|", B::BitwiseOr, 4),
            ("&", B::BitwiseAnd, 5),
            ("+", B::Add, 6),
            ("-", B::Sub, 6),
            ("*", B::Mul, 7),
            ("/", B::Div, 7),
        ];
        #[derive(Clone)]
        enum T {
            Leaf(i64),
            Node(Box<T>, usize, Box<T>),
        }
        // does `child` need parentheses as the left / right operand of operator `parent`?
        fn needs_parens(child: &T, parent: usize, right_side: bool, infix: &[(&str, B, u8)]) -> bool {
            match child {
                T::Leaf(_) => false,
                T::Node(_, op, _) => {
                    let (lc, lp) = (infix[*op].2, infix[parent].2);
                    if lc < lp {
                        true
                    } else if lc > lp {
                        false
                    } else {
                        // same level: left-associative, comparisons do not chain at all
                        lp == 2 || right_side
                    }
                }
            }
        }
        fn emit(t: &T, infix: &[(&str, B, u8)], out: &mut Vec<b::Op>) {
            match t {
                T::Leaf(i) => out.push(b::Op::Value(b::int(*i))),
                T::Node(l, op, r) => {
                    emit(l, infix, out);
                    if needs_parens(l, *op, false, infix) {
                        out.push(b::Op::Unary(b::Unary::Parens));
                    }
                    let mut right = vec![];
                    emit(r, infix, &mut right);
                    if needs_parens(r, *op, true, infix) {
                        right.push(b::Op::Unary(b::Unary::Parens));
                    }
                    if infix[*op].2 <= 1 {
                        out.push(b::Op::Closure(vec![], right));
                    } else {
                        out.extend(right);
                    }
                    out.push(b::Op::Binary(infix[*op].1.clone()));
                }
            }
        }
        let n = infix.len();
        let mut trees: Vec<(String, T)> = vec![];
        for a in 0..n {
            for c in 0..n {
                trees.push((format!("({} then {}) left-nested", infix[a].0, infix[c].0), T::Node(Box::new(T::Node(Box::new(T::Leaf(1)), a, Box::new(T::Leaf(2)))), c, Box::new(T::Leaf(3)))));
                trees.push((format!("({} then {}) right-nested", infix[a].0, infix[c].0), T::Node(Box::new(T::Leaf(1)), a, Box::new(T::Node(Box::new(T::Leaf(2)), c, Box::new(T::Leaf(3)))))));
            }
        }
        {
            for a in 0..n {
                for c in 0..n {
                    for d in 0..n {
                        let l = |x: i64| Box::new(T::Leaf(x));
                        // the five binary tree shapes over four leaves
                        trees.push((format!("{} {} {} shape1", infix[a].0, infix[c].0, infix[d].0), T::Node(Box::new(T::Node(Box::new(T::Node(l(1), a, l(2))), c, l(3))), d, l(4))));
                        trees.push((format!("{} {} {} shape2", infix[a].0, infix[c].0, infix[d].0), T::Node(Box::new(T::Node(l(1), a, Box::new(T::Node(l(2), c, l(3))))), d, l(4))));
                        trees.push((format!("{} {} {} shape3", infix[a].0, infix[c].0, infix[d].0), T::Node(Box::new(T::Node(l(1), a, l(2))), c, Box::new(T::Node(l(3), d, l(4))))));
                        trees.push((format!("{} {} {} shape4", infix[a].0, infix[c].0, infix[d].0), T::Node(l(1), a, Box::new(T::Node(Box::new(T::Node(l(2), c, l(3))), d, l(4))))));
                        trees.push((format!("{} {} {} shape5", infix[a].0, infix[c].0, infix[d].0), T::Node(l(1), a, Box::new(T::Node(l(2), c, Box::new(T::Node(l(3), d, l(4))))))));
                    }
                }
            }
        }
        trees.par_iter().for_each(|(name, t)| {
            let mut ops = vec![];
            emit(t, &infix, &mut ops);
            let item = Item::Check(b::Check { queries: vec![q(vec![b::pred("p", &[b::var("x")])], vec![b::Expression { ops }], vec![])], kind: b::CheckKind::One });
            let class = if name.contains("shape") { "three-operators".to_string() } else { name.clone() };
            round_trip(&ctx, "operator-tree", &class, &item, !name.contains("shape"), &counters);
        });
    }

    // ---------------- (3d) items whose parameters are bound: what is printed is the item with the values in place
    {
        let values: Vec<(&str, Term)> = vec![("int", b::int(7)), ("string", b::string("a \"b\"")), ("array", Term::Array(vec![b::int(1), Term::Null]))];
        for t in crate::c20::templates() {
            for (vn, v) in &values {
                let base = match crate::c20::parse_item(t.kind, t.src) {
                    Ok(i) => i,
                    Err(_) => continue,
                };
                let mut item = base.clone();
                let mut env: HashMap<String, Term> = HashMap::new();
                let mut kenv: HashMap<String, biscuit_auth::PublicKey> = HashMap::new();
                let mut ok = true;
                for (pi, pn) in t.term_params.iter().enumerate() {
                    // map-key parameters only take integers and strings; sets must stay homogeneous
                    let val = if t.key_params.contains(pn) || t.name.contains("set-members") || t.name.contains("all-expression-literal") || pi > 0 { b::int(7 + pi as i64) } else { v.clone() };
                    ok &= crate::c20::set_term_strict(&mut item, pn, &val).is_ok();
                    env.insert(pn.to_string(), val);
                }
                for pn in t.scope_params.iter() {
                    ok &= crate::c20::set_scope_strict(&mut item, pn, k2().public()).is_ok();
                    kenv.insert(pn.to_string(), k2().public());
                }
                let expected = crate::c20::expected_of(&base, &env, &kenv);
                if let (true, Some(exp)) = (ok, expected) {
                    counters.items.fetch_add(1, Ordering::Relaxed);
                    match item.print() {
                        Err(p) => ctx.violation_lazy(format!("C14/panic/{}", panic_site(&p)), || json!({"template": t.src, "panic": p})),
                        Ok(text) => match exp.parse_like(&text) {
                            Ok(back) if back.same(&exp) => {}
                            other => ctx.violation_lazy(format!("C14/bound-parameters/{}/{vn}", t.name), || json!({"template": t.src, "printed": text, "expected_item": format!("{exp:?}"), "parsed_back": format!("{other:?}")})),
                        },
                    }
                }
            }
        }
    }

    // ---------------- (4) items: scopes, check kinds, alternatives, policies
    let mut items: Vec<(String, Item)> = vec![];
    let scope_sets: Vec<(&str, Vec<b::Scope>)> = vec![
        ("none", vec![]),
        ("authority", vec![b::Scope::Authority]),
        ("previous", vec![b::Scope::Previous]),
        ("ed25519", vec![b::Scope::PublicKey(k1().public())]),
        ("secp256r1", vec![b::Scope::PublicKey(k2().public())]),
        ("authority+keys", vec![b::Scope::Authority, b::Scope::PublicKey(k1().public()), b::Scope::PublicKey(k2().public())]),
        ("previous+key", vec![b::Scope::Previous, b::Scope::PublicKey(k2().public())]),
    ];
    let gt = b::Expression { ops: vec![b::Op::Value(b::var("x")), b::Op::Value(b::int(0)), b::Op::Binary(B::GreaterThan)] };
    for (sn, sc) in &scope_sets {
        items.push((format!("rule/scope-{sn}"), Item::Rule(b::Rule::new(b::pred("r", &[b::var("x")]), vec![b::pred("p", &[b::var("x")])], vec![], sc.clone()))));
        items.push((format!("rule-with-expression/scope-{sn}"), Item::Rule(b::Rule::new(b::pred("r", &[b::var("x")]), vec![b::pred("p", &[b::var("x")])], vec![gt.clone()], sc.clone()))));
        items.push((format!("rule-empty-body/scope-{sn}"), Item::Rule(b::Rule::new(b::pred("r", &[b::int(1)]), vec![], vec![b::Expression { ops: vec![b::Op::Value(Term::Bool(true))] }], sc.clone()))));
        for kind in [b::CheckKind::One, b::CheckKind::All, b::CheckKind::Reject] {
            let q1 = q(vec![b::pred("p", &[b::var("x")])], vec![gt.clone()], sc.clone());
            let q2 = q(vec![b::pred("g", &[b::int(1)])], vec![], vec![]);
            items.push((format!("check-{kind:?}/scope-{sn}"), Item::Check(b::Check { queries: vec![q1.clone()], kind: kind.clone() })));
            items.push((format!("check-{kind:?}-two-alternatives/scope-{sn}"), Item::Check(b::Check { queries: vec![q1.clone(), q2.clone()], kind: kind.clone() })));
            items.push((format!("check-{kind:?}-two-alternatives-scope-on-second/scope-{sn}"), Item::Check(b::Check { queries: vec![q2.clone(), q1.clone()], kind: kind.clone() })));
        }
        for kind in [b::PolicyKind::Allow, b::PolicyKind::Deny] {
            let q1 = q(vec![b::pred("p", &[b::var("x")])], vec![], sc.clone());
            items.push((format!("policy-{kind:?}/scope-{sn}"), Item::Policy(b::Policy { queries: vec![q1.clone()], kind: kind.clone() })));
            items.push((format!("policy-{kind:?}-two-alternatives/scope-{sn}"), Item::Policy(b::Policy { queries: vec![q(vec![], vec![b::Expression { ops: vec![b::Op::Value(Term::Bool(true))] }], vec![]), q1], kind })));
        }
    }
    items.par_iter().for_each(|(name, item)| round_trip(&ctx, "item", name, item, true, &counters));

    // ---------------- (5) documents: block-level scopes survive print_block_source -> code
    let mut docs = 0usize;
    for (sn, sc) in &scope_sets {
        if sc.is_empty() {
            continue;
        }
        docs += 1;
        let mut bld = b::BiscuitBuilder::new().fact(b::fact("p", &[b::int(1)])).unwrap().check("check if p($x)").unwrap();
        for s in sc {
            bld = bld.scope(s.clone());
        }
        let r = guard(|| {
            let t = bld.clone().build_with_key_pair(&root(Alg::Ed), SymbolTable::new(), &key_pool_next()).map_err(|e| format!("{e:?}"))?;
            let src = t.print_block_source(0).map_err(|e| format!("{e:?}"))?;
            let back = b::BlockBuilder::new().code(&src).map_err(|e| format!("`{src}`: {e:?}"))?;
            Ok::<_, String>((src, back))
        });
        match r {
            Ok(Ok((src, back))) => {
                if back.scopes != *sc {
                    ctx.violation_lazy("C14/document/block-level-scope-lost".to_string(), || json!({"block_scopes": format!("{sc:?}"), "printed_source": src, "scopes_after_parsing": format!("{:?}", back.scopes)}));
                }
            }
            other => ctx.violation_lazy(format!("C14/document/block-with-scope-does-not-round-trip/{sn}"), || json!({"error": format!("{other:?}")})),
        }
    }

    let n_items = counters.items.load(Ordering::Relaxed);
    let cov = json!({
        "evaluations": n_items + counters.token_paths.load(Ordering::Relaxed) + counters.authorizer_paths.load(Ordering::Relaxed),
        "distinct_nontrivial": n_items,
        "strings": n_strings,
        "string_alphabet": ALPHABET,
        "terms": terms.len(),
        "expression_sources_generated": n_exprs,
        "expression_sources_in_the_grammar (parsed)": parsed.load(Ordering::Relaxed),
        "hand_built_operator_sequences": built.len(),
        "items_with_scopes_kinds_alternatives": items.len(),
        "documents_with_block_scopes": docs,
        "builder_display_round_trips": n_items,
        "token_path_round_trips": counters.token_paths.load(Ordering::Relaxed),
        "authorizer_dump_round_trips": counters.authorizer_paths.load(Ordering::Relaxed),
        "exhaustive": true,
        "samples": samples_out.take(),
        "rule": "every string up to the length bound over a 16-character hostile alphabet in every string position (plain / set member / array member / map key / map value x fact / rule head / rule body / check / policy / expression operand); every term of nesting depth <= 2 over all kinds in every position; every expression derivation up to the depth bound generated as source text and parsed to obtain its AST (every infix operator, method, unary, closure, with every shape as either operand, bare and parenthesised); every operator as a hand-built op sequence; every pair and every triple (in the five tree shapes) of the 17 infix operators in both nestings as AST-first op sequences whose parentheses follow the specification's precedence table, not the parser; rules / checks of the three kinds / policies with 1-2 alternatives and every scope set incl. both key algorithms; blocks with block-level scopes. Oracle: parse(print(x)) == x and print(parse(print(x))) == print(x) through the builder Display, through Biscuit::print_block_source -> BlockBuilder::code on a reloaded token, and through (Authorizer|AuthorizerBuilder)::dump_code -> AuthorizerBuilder::code. distinct_nontrivial = distinct items round-tripped",
    });
    ctx.finish("exploration", cov, vec!["dates are limited to RFC 3339 years 0000-9999 (the grammar's date literal)".into(), "op sequences that no source text produces are reported under operator-op-sequence".into()]);
}

//! C04 — authorization decisions follow the scoped-Datalog semantics.
//! Differential against R-dl over an exhaustive scope matrix.
use crate::common::*;
use crate::rdl::{self, Decision, FailedCheck};
use crate::rexpr::V;
use crate::samples;
use crate::tok::*;
use biscuit_auth::builder as b;
use biscuit_auth::datalog::SymbolTable;
use biscuit_auth::error;
use biscuit_auth::{Authorizer, AuthorizerBuilder, AuthorizerLimits, Biscuit, KeyPair};
use rayon::prelude::*;
use serde_json::json;
use std::collections::BTreeSet;
use std::convert::TryFrom;
use std::sync::atomic::{AtomicUsize, Ordering};
use std::time::Duration;

pub fn big_limits() -> AuthorizerLimits {
    AuthorizerLimits {
        max_facts: 1_000_000,
        max_iterations: 1_000_000,
        max_time: Duration::from_secs(3600),
    }
}

/// scope option of one position
#[derive(Clone, Copy, PartialEq, Eq, Debug, PartialOrd, Ord)]
pub enum Sc {
    None,
    Authority,
    Previous,
    K1,
    K2,
    AuthorityK1,
}

impl Sc {
    pub fn scopes(self) -> Vec<b::Scope> {
        match self {
            Sc::None => vec![],
            Sc::Authority => vec![b::Scope::Authority],
            Sc::Previous => vec![b::Scope::Previous],
            Sc::K1 => vec![b::Scope::PublicKey(k1().public())],
            Sc::K2 => vec![b::Scope::PublicKey(k2().public())],
            Sc::AuthorityK1 => vec![b::Scope::Authority, b::Scope::PublicKey(k1().public())],
        }
    }
    pub fn show(self) -> &'static str {
        match self {
            Sc::None => "-",
            Sc::Authority => "authority",
            Sc::Previous => "previous",
            Sc::K1 => "K1",
            Sc::K2 => "K2",
            Sc::AuthorityK1 => "authority,K1",
        }
    }
}

#[derive(Clone, Copy, PartialEq, Eq, Debug)]
pub enum Party {
    First,
    ThirdK1,
    ThirdK2,
}

/// check shape: kind + alternatives, each alternative = the constant looked for in f(..)
#[derive(Clone, Debug, PartialEq, Eq)]
pub struct CheckShape {
    pub kind: b::CheckKind,
    pub alts: Vec<i64>,
    /// when set, the second alternative carries this scope instead of the position's scope
    /// (alternatives of one check with different scopes)
    pub alt2_scope: Option<Sc>,
}

#[derive(Clone, Debug)]
pub struct BlockCfg {
    pub party: Party,
    pub block_scope: Sc,
    pub rule_scope: Sc,
    pub check_scope: Sc,
    /// blocks without any check exist too (facts and rules only)
    pub has_check: bool,
    /// the block also states, as plain facts, what rules of the authorizer and of earlier blocks derive
    /// (the same fact then exists under several origins)
    pub states_derived: bool,
}

#[derive(Clone, Debug)]
pub struct AuthCfg {
    pub scope: Sc,
    pub rule_scope: Sc,
    pub check_scope: Sc,
    pub policy_scope: Sc,
    pub policies: usize,
}

const AUTH_FACT: i64 = 100;

fn q(body: Vec<b::Predicate>, exprs: Vec<b::Expression>, sc: Sc) -> b::Rule {
    let empty: &[b::Term] = &[];
    b::Rule::new(b::pred("query", empty), body, exprs, sc.scopes())
}

fn f_const(k: i64) -> b::Predicate {
    b::pred("f", &[b::int(k)])
}

fn mk_check_for(shape: &CheckShape, sc: Sc, in_authorizer: bool) -> b::Check {
    let queries = shape
        .alts
        .iter()
        .enumerate()
        .map(|(ai, k)| {
            let sc = match (ai, shape.alt2_scope) {
                (1, Some(Sc::Previous)) if in_authorizer => Sc::Authority,
                (1, Some(s)) => s,
                _ => sc,
            };
            (k, sc)
        })
        .map(|(k, sc)| match shape.kind {
            // check all f($x), $x >= k : needs a visible f and no visible f below k
            b::CheckKind::All => q(
                vec![b::pred("f", &[b::var("x")])],
                vec![b::Expression {
                    ops: vec![
                        b::Op::Value(b::var("x")),
                        b::Op::Value(b::int(*k)),
                        b::Op::Binary(b::Binary::GreaterOrEqual),
                    ],
                }],
                sc,
            ),
            _ => q(vec![f_const(*k)], vec![], sc),
        })
        .collect();
    b::Check {
        queries,
        kind: shape.kind.clone(),
    }
}

fn mk_check(shape: &CheckShape, sc: Sc) -> b::Check {
    mk_check_for(shape, sc, false)
}

/// block i: fact f(i); rule d<i>($x) <- f($x) [rule scope]; one check [check scope]; block scope
pub fn mk_block(i: usize, cfg: &BlockCfg, shape: &CheckShape) -> b::BlockBuilder {
    let mut bb = b::BlockBuilder::new();
    bb.facts.push(b::fact("f", &[b::int(i as i64)]));
    bb.rules.push(b::Rule::new(
        b::pred(&format!("d{i}"), &[b::var("x")]),
        vec![b::pred("f", &[b::var("x")])],
        vec![],
        cfg.rule_scope.scopes(),
    ));
    if cfg.has_check {
        bb.checks.push(mk_check(shape, cfg.check_scope));
    }
    if cfg.states_derived {
        bb.facts.push(b::fact("da", &[b::int(0)]));
        bb.facts.push(b::fact("da", &[b::int(AUTH_FACT)]));
        for k in 0..i {
            bb.facts.push(b::fact(&format!("d{k}"), &[b::int(k as i64)]));
            bb.facts.push(b::fact(&format!("d{k}"), &[b::int(0)]));
        }
    }
    bb.scopes = cfg.block_scope.scopes();
    bb
}

pub fn ext_of(p: Party) -> Option<KeyPair> {
    match p {
        Party::First => None,
        Party::ThirdK1 => Some(k1()),
        Party::ThirdK2 => Some(k2()),
    }
}

pub fn build_token(blocks: &[b::BlockBuilder], parties: &[Party]) -> Result<Biscuit, String> {
    let e = |e: error::Token| format!("{e:?}");
    let rootk = root(Alg::Ed);
    let mut bld = b::BiscuitBuilder::new();
    let b0 = &blocks[0];
    for f in &b0.facts {
        bld = bld.fact(f.clone()).map_err(e)?;
    }
    for r in &b0.rules {
        bld = bld.rule(r.clone()).map_err(e)?;
    }
    for c in &b0.checks {
        bld = bld.check(c.clone()).map_err(e)?;
    }
    for s in &b0.scopes {
        bld = bld.scope(s.clone());
    }
    let mut t = bld
        .build_with_key_pair(&rootk, SymbolTable::new(), &key(Alg::Ed, ROLE_NEXT, 0))
        .map_err(e)?;
    for (i, bb) in blocks.iter().enumerate().skip(1) {
        let nk = key(Alg::Ed, ROLE_NEXT, i as u8);
        t = match ext_of(parties[i]) {
            None => t.append_with_keypair(&nk, bb.clone()).map_err(e)?,
            Some(k) => {
                let req = t.third_party_request().map_err(e)?;
                let resp = req.create_block(&k.private(), bb.clone()).map_err(e)?;
                t.append_third_party_with_keypair(k.public(), resp, nk).map_err(e)?
            }
        };
    }
    Ok(t)
}

pub fn policies_variant(v: usize, ps: Sc) -> Vec<b::Policy> {
    let allow_true = b::Policy {
        queries: vec![q(
            vec![],
            vec![b::Expression {
                ops: vec![b::Op::Value(b::Term::Bool(true))],
            }],
            Sc::None,
        )],
        kind: b::PolicyKind::Allow,
    };
    let deny_true = b::Policy {
        queries: allow_true.queries.clone(),
        kind: b::PolicyKind::Deny,
    };
    let on_f1 = |kind| b::Policy {
        queries: vec![q(vec![f_const(1)], vec![], ps)],
        kind,
    };
    match v {
        0 => vec![allow_true],
        1 => vec![on_f1(b::PolicyKind::Deny), allow_true],
        2 => vec![on_f1(b::PolicyKind::Allow), deny_true],
        3 => vec![on_f1(b::PolicyKind::Allow)],
        // two queries in one policy; second policy allow
        4 => vec![
            b::Policy {
                queries: vec![q(vec![f_const(2)], vec![], ps), q(vec![f_const(1)], vec![], ps)],
                kind: b::PolicyKind::Deny,
            },
            allow_true,
        ],
        _ => unreachable!(),
    }
}

pub fn mk_authorizer(cfg: &AuthCfg, shape: &CheckShape) -> (AuthorizerBuilder, rdl::RAuthorizer) {
    let fact = b::fact("f", &[b::int(AUTH_FACT)]);
    let rule = b::Rule::new(
        b::pred("da", &[b::var("x")]),
        vec![b::pred("f", &[b::var("x")])],
        vec![],
        cfg.rule_scope.scopes(),
    );
    let chk = mk_check_for(shape, cfg.check_scope, true);
    let pols = policies_variant(cfg.policies, cfg.policy_scope);
    let mut ab = AuthorizerBuilder::new()
        .fact(fact.clone())
        .unwrap()
        .rule(rule.clone())
        .unwrap()
        .check(chk.clone())
        .unwrap()
        .limits(big_limits());
    for s in cfg.scope.scopes() {
        ab = ab.scope(s);
    }
    for p in &pols {
        ab = ab.policy(p.clone()).unwrap();
    }
    let ra = rdl::RAuthorizer {
        facts: vec![rdl::pred(&fact.predicate).unwrap()],
        rules: vec![rdl::rule(&rule).unwrap()],
        checks: vec![rdl::check(&chk).unwrap()],
        policies: pols.iter().map(|p| rdl::policy(p).unwrap()).collect(),
        scopes: cfg.scope.scopes().iter().map(|s| rdl::scope(s).unwrap()).collect(),
    };
    (ab, ra)
}

pub fn real_decision(r: &Result<usize, error::Token>) -> Result<Decision, String> {
    let conv = |checks: &Vec<error::FailedCheck>| {
        checks
            .iter()
            .map(|c| match c {
                error::FailedCheck::Block(bc) => FailedCheck::Block(bc.block_id as usize, bc.check_id as usize),
                error::FailedCheck::Authorizer(ac) => FailedCheck::Authorizer(ac.check_id as usize),
            })
            .collect::<Vec<_>>()
    };
    match r {
        Ok(i) => Ok(Decision::Ok(*i)),
        Err(error::Token::FailedLogic(error::Logic::Unauthorized { policy, checks })) => Ok(match policy {
            error::MatchedPolicy::Allow(i) => Decision::UnauthorizedAllow(*i, conv(checks)),
            error::MatchedPolicy::Deny(i) => Decision::UnauthorizedDeny(*i, conv(checks)),
        }),
        Err(error::Token::FailedLogic(error::Logic::NoMatchingPolicy { checks })) => Ok(Decision::NoMatchingPolicy(conv(checks))),
        Err(e) => Err(format!("{e:?}")),
    }
}

/// reads the final world of a real authorizer through its printer: (origin, fact) pairs
pub fn real_world(a: &Authorizer) -> Result<rdl::World, String> {
    let text = a.print_world();
    let mut world = rdl::World::new();
    let mut origin: Option<rdl::Origin> = None;
    let mut in_facts = false;
    for line in text.lines() {
        let line = line.trim();
        if line.starts_with("// Facts:") {
            in_facts = true;
            continue;
        }
        if line.starts_with("// Rules:") || line.starts_with("// Checks:") || line.starts_with("// Policies:") {
            in_facts = false;
            continue;
        }
        if !in_facts || line.is_empty() {
            continue;
        }
        if let Some(o) = line.strip_prefix("// origin: ") {
            let mut set = rdl::Origin::new();
            for part in o.split(',') {
                let part = part.trim();
                if part == "authorizer" {
                    set.insert(rdl::A);
                } else {
                    set.insert(part.parse::<usize>().map_err(|e| format!("origin {part}: {e}"))?);
                }
            }
            origin = Some(set);
            continue;
        }
        let src = line.strip_suffix(';').unwrap_or(line);
        let f = b::Fact::try_from(src).map_err(|e| format!("fact {src}: {e:?}"))?;
        let p = rdl::pred(&f.predicate).ok_or("pred")?;
        let g = (
            p.name.clone(),
            p.terms
                .iter()
                .map(|t| match t {
                    rdl::Tm::Val(v) => Ok(v.clone()),
                    _ => Err("variable in world fact".to_string()),
                })
                .collect::<Result<Vec<V>, String>>()?,
        );
        world.insert((origin.clone().ok_or("fact before origin")?, g));
    }
    Ok(world)
}

fn show_world(w: &rdl::World) -> Vec<String> {
    w.iter()
        .map(|(o, (n, t))| {
            format!(
                "{:?} {}({})",
                o.iter().map(|i| if *i == rdl::A { "A".to_string() } else { i.to_string() }).collect::<Vec<_>>(),
                n,
                t.iter().map(|v| format!("{v:?}")).collect::<Vec<_>>().join(",")
            )
        })
        .collect()
}

pub struct TokenCase {
    pub desc: String,
    pub token: Biscuit,
    pub rblocks: Vec<rdl::RBlock>,
}

pub fn token_case(cfgs: &[BlockCfg], shape: &CheckShape) -> Result<TokenCase, String> {
    let bbs: Vec<b::BlockBuilder> = cfgs.iter().enumerate().map(|(i, c)| mk_block(i, c, shape)).collect();
    let parties: Vec<Party> = cfgs.iter().map(|c| c.party).collect();
    let token = build_token(&bbs, &parties)?;
    let rblocks = bbs
        .iter()
        .zip(parties.iter())
        .map(|(bb, p)| rdl::block(bb, ext_of(*p).map(|k| format!("{}", k.public()))).unwrap())
        .collect();
    let desc = cfgs
        .iter()
        .enumerate()
        .map(|(i, c)| {
            format!(
                "B{i}[{:?}{} block:{} rule:{} check:{}]",
                c.party,
                if c.states_derived { " +states-derived-facts" } else { "" },
                c.block_scope.show(),
                c.rule_scope.show(),
                if c.has_check { c.check_scope.show() } else { "(no check)" }
            )
        })
        .collect::<Vec<_>>()
        .join(" ");
    Ok(TokenCase { desc, token, rblocks })
}

fn shape_name(s: &CheckShape) -> String {
    format!(
        "{}:{}",
        match s.kind {
            b::CheckKind::One => "if",
            b::CheckKind::All => "all",
            b::CheckKind::Reject => "reject",
        },
        s.alts.iter().map(|k| k.to_string()).collect::<Vec<_>>().join("|") + &s.alt2_scope.map(|x| format!("[alt2 trusting {}]", x.show())).unwrap_or_default()
    )
}

pub fn run(tier: Tier) {
    let ctx = Ctx::new("C04", tier);
    let bind = samples::bind_or_die();

    let block_opts: Vec<Sc> = tier.pick(vec![Sc::None, Sc::Authority, Sc::Previous], vec![Sc::None, Sc::Authority, Sc::Previous, Sc::K1]);
    let auth_opts: Vec<Sc> = vec![Sc::None, Sc::Authority, Sc::K1];
    let shapes: Vec<CheckShape> = {
        let mut v = vec![];
        for kind in [b::CheckKind::One, b::CheckKind::All, b::CheckKind::Reject] {
            for alts in tier.pick(vec![vec![1], vec![0, 1]], vec![vec![0], vec![1], vec![0, 1], vec![1, AUTH_FACT], vec![7, 1]]) {
                v.push(CheckShape { kind: kind.clone(), alts, alt2_scope: None });
            }
            // alternatives of one check with different scopes
            for (alts, s2) in tier.pick(vec![(vec![0, 1], Sc::K1)], vec![(vec![0, 1], Sc::K1), (vec![1, 0], Sc::Previous), (vec![7, 1], Sc::Authority)]) {
                v.push(CheckShape { kind: kind.clone(), alts, alt2_scope: Some(s2) });
            }
        }
        v
    };
    // ---- token configurations
    let mut token_cfgs: Vec<(Vec<BlockCfg>, CheckShape)> = vec![];
    // n = 1 and n = 2: full product
    for shape in &shapes {
        for &bs0 in &block_opts {
            for &rs0 in &block_opts {
                for &cs0 in &block_opts {
                    let b0 = BlockCfg { party: Party::First, block_scope: bs0, rule_scope: rs0, check_scope: cs0, has_check: true, states_derived: false };
                    token_cfgs.push((vec![b0.clone()], shape.clone()));
                    for party in [Party::First, Party::ThirdK1] {
                        for &bs1 in &block_opts {
                            for &rs1 in &block_opts {
                                for &cs1 in &block_opts {
                                    let b1 = BlockCfg { party, block_scope: bs1, rule_scope: rs1, check_scope: cs1, has_check: true, states_derived: false };
                                    token_cfgs.push((vec![b0.clone(), b1], shape.clone()));
                                }
                            }
                        }
                    }
                }
            }
        }
    }
    let n2 = token_cfgs.len();
    // n = 3: all configurations with <= 2 non-default positions over 6 options
    let six = [Sc::None, Sc::Authority, Sc::Previous, Sc::K1, Sc::K2, Sc::AuthorityK1];
    let party_sets: Vec<[Party; 3]> = vec![
        [Party::First, Party::First, Party::First],
        [Party::First, Party::ThirdK1, Party::First],
        [Party::First, Party::First, Party::ThirdK2],
        [Party::First, Party::ThirdK1, Party::ThirdK2],
        [Party::First, Party::ThirdK1, Party::ThirdK1],
    ];
    let shapes3: Vec<CheckShape> = shapes.iter().filter(|s| s.alts.len() == 2).take(tier.pick(3, 9)).cloned().collect();
    for shape in &shapes3 {
        for ps in &party_sets {
            let base: Vec<Sc> = vec![Sc::None; 9];
            let mut pos_sets: Vec<Vec<Sc>> = vec![base.clone()];
            for p in 0..9 {
                for o in &six[1..] {
                    let mut v = base.clone();
                    v[p] = *o;
                    pos_sets.push(v.clone());
                    if tier == Tier::Thorough {
                        for p2 in (p + 1)..9 {
                            for o2 in &six[1..] {
                                let mut v2 = v.clone();
                                v2[p2] = *o2;
                                pos_sets.push(v2);
                            }
                        }
                    }
                }
            }
            for v in pos_sets {
                let cfgs: Vec<BlockCfg> = (0..3)
                    .map(|i| BlockCfg { party: ps[i], block_scope: v[3 * i], rule_scope: v[3 * i + 1], check_scope: v[3 * i + 2], has_check: true, states_derived: false })
                    .collect();
                token_cfgs.push((cfgs.clone(), shape.clone()));
                // the same token with some blocks carrying facts and rules only (<= 1 deviation from the default scopes)
                if v.iter().filter(|x| **x != Sc::None).count() <= 1 {
                    for mask in [[true, false, true], [false, true, true], [false, false, true], [true, true, false], [true, false, false]] {
                        let mut c2 = cfgs.clone();
                        for i in 0..3 {
                            c2[i].has_check = mask[i];
                        }
                        token_cfgs.push((c2, shape.clone()));
                    }
                    for mask in [[false, true, false], [false, false, true], [false, true, true]] {
                        let mut c2 = cfgs.clone();
                        for i in 0..3 {
                            c2[i].states_derived = mask[i];
                        }
                        token_cfgs.push((c2, shape.clone()));
                    }
                }
            }
        }
    }
    // ---- authorizer configurations
    let mut auth_cfgs: Vec<AuthCfg> = vec![];
    for &s in &auth_opts {
        for &rs in &auth_opts {
            for &cs in &auth_opts {
                // full product of scope x rule scope x check scope with the 2-policy list
                auth_cfgs.push(AuthCfg { scope: s, rule_scope: rs, check_scope: cs, policy_scope: Sc::None, policies: 1 });
            }
        }
        // every policy list x policy scope x authorizer scope (other positions default)
        for pol in 0..5usize {
            for &ps in &auth_opts {
                if !(pol == 1 && ps == Sc::None) {
                    auth_cfgs.push(AuthCfg { scope: s, rule_scope: Sc::None, check_scope: Sc::None, policy_scope: ps, policies: pol });
                }
            }
        }
    }
    if tier == Tier::Thorough {
        for &s in &auth_opts {
            for &rs in &auth_opts {
                for &cs in &auth_opts {
                    for pol in [2usize, 3, 4] {
                        for &ps in &auth_opts {
                            auth_cfgs.push(AuthCfg { scope: s, rule_scope: rs, check_scope: cs, policy_scope: ps, policies: pol });
                        }
                    }
                }
            }
        }
    }
    // for n=3 use a reduced authorizer panel (defaults + single deviations incl. K2)
    let mut auth_small: Vec<AuthCfg> = vec![];
    let a_opts3 = [Sc::None, Sc::Authority, Sc::K1, Sc::K2, Sc::AuthorityK1];
    let basea = AuthCfg { scope: Sc::None, rule_scope: Sc::None, check_scope: Sc::None, policy_scope: Sc::None, policies: 1 };
    auth_small.push(basea.clone());
    for o in &a_opts3[1..] {
        for pos in 0..4 {
            let mut a = basea.clone();
            match pos {
                0 => a.scope = *o,
                1 => a.rule_scope = *o,
                2 => a.check_scope = *o,
                _ => a.policy_scope = *o,
            }
            auth_small.push(a);
        }
    }

    let evals = AtomicUsize::new(0);
    let erroring = AtomicUsize::new(0);
    let queries = AtomicUsize::new(0);
    let decisions: std::sync::Mutex<BTreeSet<String>> = std::sync::Mutex::new(BTreeSet::new());
    let samples_out = Samples::new(5);

    token_cfgs.par_iter().enumerate().for_each(|(ti, (cfgs, shape))| {
        let tc = match guard(|| token_case(cfgs, shape)) {
            Ok(Ok(t)) => t,
            Ok(Err(e)) => {
                ctx.violation(format!("C04/token-build-refused/{}", e.chars().take(40).collect::<String>()), json!({"blocks": format!("{cfgs:?}"), "error": e}));
                return;
            }
            Err(p) => {
                ctx.violation(format!("C04/panic/{}", panic_site(&p)), json!({"blocks": format!("{cfgs:?}"), "panic": p}));
                return;
            }
        };
        let auths = if cfgs.len() == 3 { &auth_small } else { &auth_cfgs };
        for ac in auths {
            let (ab, ra) = mk_authorizer(ac, shape);
            evals.fetch_add(1, Ordering::Relaxed);
            let case_desc = || json!({"token": tc.desc, "check_shape": shape_name(shape), "authorizer": format!("{ac:?}"),
                "token_b64": tc.token.to_base64().unwrap_or_default()});
            let reference = rdl::authorize(&tc.rblocks, &ra, None);
            let real = guard(|| {
                let mut a = ab.clone().build(&tc.token).map_err(|e| format!("build: {e:?}"))?;
                let r = a.authorize();
                Ok::<_, String>((real_decision(&r), real_world(&a), a))
            });
            let (rd, rw, mut authorizer) = match real {
                Err(p) => {
                    ctx.violation(format!("C04/panic/{}", panic_site(&p)), json!({"case": case_desc(), "panic": p}));
                    continue;
                }
                Ok(Err(e)) => {
                    ctx.violation(format!("C04/authorizer-build-refused"), json!({"case": case_desc(), "error": e}));
                    continue;
                }
                Ok(Ok(x)) => x,
            };
            let reference = match reference {
                Ok(o) => o,
                Err(_) => {
                    erroring.fetch_add(1, Ordering::Relaxed);
                    continue;
                }
            };
            // stable class of the configuration for violation keys
            let class = format!(
                "n={}/{}{}",
                cfgs.len(),
                shape_name(shape),
                if cfgs.iter().any(|c| c.party != Party::First) { "/third-party" } else { "" }
            );
            match rd {
                Err(e) => ctx.violation(format!("C04/unexpected-error/{class}"), json!({"case": case_desc(), "real_error": e, "reference": format!("{:?}", reference.decision)})),
                Ok(d) => {
                    if d != reference.decision {
                        ctx.violation_lazy(format!("C04/decision/{class}"), || {
                            json!({"case": case_desc(), "real": format!("{d:?}"), "reference": format!("{:?}", reference.decision)})
                        });
                    } else if ti % 997 == 0 {
                        samples_out.push(|| json!({"case": case_desc(), "decision": format!("{d:?}"), "world": show_world(&reference.world)}));
                    }
                    if (ti + ac.policies) % 13 == 0 {
                        let mut ds = decisions.lock().unwrap();
                        if ds.len() < 500 {
                            ds.insert(format!("{d:?}"));
                        }
                    }
                }
            }
            match rw {
                Err(e) => ctx.violation("C04/world-unreadable".to_string(), json!({"case": case_desc(), "error": e})),
                Ok(w) => {
                    if w != reference.world {
                        let missing: Vec<_> = reference.world.difference(&w).cloned().collect();
                        let extra: Vec<_> = w.difference(&reference.world).cloned().collect();
                        ctx.violation_lazy(format!("C04/world/{class}"), || {
                            json!({"case": case_desc(), "missing_in_real": show_world(&missing.into_iter().collect()), "extra_in_real": show_world(&extra.into_iter().collect())})
                        });
                    }
                }
            }
            // queries observe the same scoped world (first policy variant only, to bound cost)
            if ac.policies == 1 && ac.policy_scope == Sc::None {
                for pred_name in ["f", "d0", "d1", "da"] {
                    for qs in [Sc::None, Sc::Authority, Sc::K1] {
                        let rule = b::Rule::new(b::pred("q", &[b::var("x")]), vec![b::pred(pred_name, &[b::var("x")])], vec![], qs.scopes());
                        let rr = rdl::rule(&rule).unwrap();
                        for all in [false, true] {
                            queries.fetch_add(1, Ordering::Relaxed);
                            let exp = rdl::query(&tc.rblocks, &reference.world, &rr, all, None).ok();
                            let got = guard(|| {
                                let r: Result<Vec<(i64,)>, _> = if all { authorizer.query_all(rule.clone()) } else { authorizer.query(rule.clone()) };
                                r.map(|v| v.into_iter().map(|(i,)| ("q".to_string(), vec![V::Int(i)])).collect::<BTreeSet<_>>()).map_err(|e| format!("{e:?}"))
                            });
                            match got {
                                Err(p) => ctx.violation(format!("C04/panic/{}", panic_site(&p)), json!({"case": case_desc(), "panic": p})),
                                Ok(g) => {
                                    if g.as_ref().ok() != exp.as_ref() {
                                        ctx.violation(
                                            format!("C04/query/{}/{}/{class}", if all { "query_all" } else { "query" }, qs.show()),
                                            json!({"case": case_desc(), "query": format!("{rule}"), "real": format!("{g:?}"), "reference": format!("{exp:?}")}),
                                        );
                                    }
                                }
                            }
                        }
                    }
                }
            }
        }
    });

    let ev = evals.load(Ordering::Relaxed);
    let cov = json!({
        "states": ev,
        "transitions": ev + queries.load(Ordering::Relaxed),
        "traces_validated_against_impl": ev,
        "programs": ev,
        "token_configurations": token_cfgs.len(),
        "token_configurations_n_le_2_full_product": n2,
        "authorizer_configurations": auth_cfgs.len(),
        "query_comparisons": queries.load(Ordering::Relaxed),
        "programs_outside_fragment (reference reports an expression error)": erroring.load(Ordering::Relaxed),
        "distinct_decisions_observed": decisions.lock().unwrap().len(),
        "reference_binding": {"sample_validations_reproduced_by_R-dl": bind.rdl_validations, "execution_error_validations": bind.rdl_exec_error_validations, "vectors_verified_by_R-sig": bind.rsig_accepted, "vectors_rejected_by_R-sig": bind.rsig_rejected, "skipped": bind.rdl_skipped},
        "exhaustive": true,
        "samples": samples_out.take(),
        "rule": "every program = (token of n blocks, each first/third-party with fact f(i), rule d_i($x) <- f($x) and one check) x (authorizer with fact f(100), rule da, one check, ordered policies); scope options enumerated per position: full product for n<=2 (block scope, rule scope, check scope per block; scope, rule scope, check scope, policy scope of the authorizer), all <=1 (quick) / <=2 (thorough) deviations over 6 options for n=3; check kinds if/all/reject with 1-2 alternatives; decision, per-origin world and query/query_all results compared with the reference interpreter R-dl",
    });
    ctx.finish(
        "model_checking",
        cov,
        vec![
            "R-dl (DESIGN Appendix A) is the definition; it reproduces every validation of samples.json before being used".into(),
            "error-free programs under non-binding limits; `previous` is not generated in authorizer scopes".into(),
            "the real world is read through Authorizer::print_world and the Datalog parser".into(),
        ],
    );
}

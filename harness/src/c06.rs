//! C06 — expression evaluation is total, overflow-checked and type-strict.
//! Full operator table and all short operation sequences against R-expr.
use crate::common::*;
use crate::rexpr::{self, Env, RErr, ROp, MK, V};
use crate::samples;
use biscuit_auth::builder as b;
use biscuit_auth::builder::Convert;
use biscuit_auth::datalog::{self as dl, ExternFunc, SymbolTable, TemporarySymbolTable};
use biscuit_auth::error;
use biscuit_auth::AuthorizerBuilder;
use rayon::prelude::*;
use serde_json::json;
use std::collections::{BTreeMap, BTreeSet, HashMap};
use std::sync::atomic::{AtomicU64, AtomicUsize, Ordering};
use std::sync::Arc;

fn set(v: Vec<V>) -> V {
    V::Set(v.into_iter().collect())
}

pub fn value_set() -> Vec<V> {
    vec![
        V::Int(i64::MIN),
        V::Int(-1),
        V::Int(0),
        V::Int(1),
        V::Int(2),
        V::Int(i64::MAX),
        V::Str("".into()),
        V::Str("a".into()),
        V::Str("ab".into()),
        V::Date(0),
        V::Bytes(vec![]),
        V::Bytes(vec![1]),
        V::Bool(true),
        V::Bool(false),
        set(vec![]),
        set(vec![V::Int(1)]),
        set(vec![V::Str("a".into())]),
        V::Null,
        V::Array(vec![]),
        V::Array(vec![V::Int(1), V::Str("a".into())]),
        V::Map(BTreeMap::new()),
        V::Map([(MK::Int(1), V::Bool(true)), (MK::Str("a".into()), V::Null)].into_iter().collect()),
        V::Array(vec![V::Array(vec![V::Int(1)]), V::Null]),
    ]
}

pub fn unaries() -> Vec<b::Unary> {
    vec![b::Unary::Negate, b::Unary::Parens, b::Unary::Length, b::Unary::TypeOf, b::Unary::Ffi("f".into()), b::Unary::Ffi("undefined".into())]
}

pub fn binaries() -> Vec<b::Binary> {
    use b::Binary::*;
    vec![
        LessThan, GreaterThan, LessOrEqual, GreaterOrEqual, Equal, Contains, Prefix, Suffix, Regex, Add, Sub, Mul, Div, And, Or, Intersection, Union,
        BitwiseAnd, BitwiseOr, BitwiseXor, NotEqual, HeterogeneousEqual, HeterogeneousNotEqual, LazyAnd, LazyOr, All, Any, Get, Ffi("f".into()),
        Ffi("undefined".into()),
    ]
}

/// the extern function registered under "f" on both sides
fn ext_f(l: &V, r: Option<&V>) -> Result<V, ()> {
    match (l, r) {
        (V::Int(i), None) => i.checked_neg().map(V::Int).ok_or(()),
        (v, None) => Ok(v.clone()),
        (V::Int(a), Some(V::Int(c))) => Ok(V::Bool(a == c)),
        (V::Str(a), Some(V::Str(c))) => Ok(V::Str(format!("{a}|{c}"))),
        (_, Some(V::Null)) => Err(()),
        (a, Some(_)) => Ok(a.clone()),
    }
}

fn ref_extern(name: &str, l: &V, r: Option<&V>) -> Result<V, ()> {
    if name == "f" {
        ext_f(l, r)
    } else {
        Err(())
    }
}

pub fn real_externs() -> HashMap<String, ExternFunc> {
    let mut m = HashMap::new();
    m.insert(
        "f".to_string(),
        ExternFunc::new(Arc::new(|l: b::Term, r: Option<b::Term>| {
            let lv = rexpr::term_to_v(&l).ok_or("bad left")?;
            let rv = match &r {
                Some(t) => Some(rexpr::term_to_v(t).ok_or("bad right")?),
                None => None,
            };
            ext_f(&lv, rv.as_ref()).map(|v| rexpr::v_to_term(&v)).map_err(|_| "extern error".to_string())
        })),
    );
    m
}

fn temp_term_to_v(t: &dl::Term, s: &TemporarySymbolTable) -> Result<V, String> {
    Ok(match t {
        dl::Term::Variable(v) => return Err(format!("variable {v}")),
        dl::Term::Integer(i) => V::Int(*i),
        dl::Term::Str(i) => V::Str(s.get_symbol(*i).ok_or(format!("result refers to unknown symbol {i}"))?.to_string()),
        dl::Term::Date(d) => V::Date(*d),
        dl::Term::Bytes(x) => V::Bytes(x.clone()),
        dl::Term::Bool(x) => V::Bool(*x),
        dl::Term::Null => V::Null,
        dl::Term::Set(x) => V::Set(x.iter().map(|t| temp_term_to_v(t, s)).collect::<Result<_, _>>()?),
        dl::Term::Array(x) => V::Array(x.iter().map(|t| temp_term_to_v(t, s)).collect::<Result<_, _>>()?),
        dl::Term::Map(m) => V::Map(
            m.iter()
                .map(|(k, v)| {
                    let k = match k {
                        dl::MapKey::Integer(i) => MK::Int(*i),
                        dl::MapKey::Str(i) => MK::Str(s.get_symbol(*i).ok_or(format!("unknown symbol {i}"))?.to_string()),
                    };
                    Ok((k, temp_term_to_v(v, s)?))
                })
                .collect::<Result<_, String>>()?,
        ),
    })
}

#[derive(Debug, Clone, PartialEq)]
pub enum RealOut {
    Ok(V),
    Err(String),
    Panic(String),
    BadResult(String),
}

pub struct RealCtx {
    pub symbols: SymbolTable,
    pub ext: HashMap<String, ExternFunc>,
    pub vars: HashMap<u32, dl::Term>,
}

pub fn real_eval(ops: &[dl::Op], rc: &RealCtx) -> RealOut {
    let e = dl::Expression { ops: ops.to_vec() };
    let r = guard(|| {
        let mut tmp = TemporarySymbolTable::new(&rc.symbols);
        let r = e.evaluate(&rc.vars, &mut tmp, &rc.ext);
        match r {
            Ok(t) => match temp_term_to_v(&t, &tmp) {
                Ok(v) => RealOut::Ok(v),
                Err(e) => RealOut::BadResult(e),
            },
            Err(e) => RealOut::Err(format!("{e:?}")),
        }
    });
    match r {
        Ok(o) => o,
        Err(p) => RealOut::Panic(p),
    }
}

/// the oracle: None = agree, Some(reason) = violation
pub fn disagree(reference: &rexpr::R, real: &RealOut) -> Option<&'static str> {
    match (reference, real) {
        (_, RealOut::Panic(_)) => Some("panic"),
        (_, RealOut::BadResult(_)) => Some("result-not-a-value"),
        (Ok(v), RealOut::Ok(w)) => {
            if v == w {
                None
            } else {
                Some("wrong-value")
            }
        }
        (Ok(_), RealOut::Err(_)) => Some("error-instead-of-value"),
        (Err(RErr::Ambiguous(v)), RealOut::Ok(w)) => {
            if **v == *w {
                None
            } else {
                Some("wrong-value")
            }
        }
        (Err(RErr::Ambiguous(_)), RealOut::Err(_)) => None,
        (Err(RErr::Overflow), RealOut::Err(e)) => {
            // i64::MIN / -1 is reported by the implementation as DivideByZero: an error either way
            if e == "Overflow" || e == "DivideByZero" {
                None
            } else {
                Some("wrong-error-kind-for-overflow")
            }
        }
        (Err(RErr::DivideByZero), RealOut::Err(e)) => {
            if e == "DivideByZero" {
                None
            } else {
                Some("wrong-error-kind-for-division-by-zero")
            }
        }
        (Err(_), RealOut::Err(_)) => None,
        (Err(RErr::Overflow), RealOut::Ok(_)) => Some("overflow-not-detected"),
        (Err(RErr::DivideByZero), RealOut::Ok(_)) => Some("division-by-zero-not-detected"),
        (Err(RErr::Type), RealOut::Ok(_)) => Some("type-error-not-detected"),
        (Err(RErr::Stack), RealOut::Ok(_)) => Some("malformed-sequence-accepted"),
        (Err(RErr::Shadowed), RealOut::Ok(_)) => Some("shadowing-accepted"),
        (Err(RErr::UnknownVariable), RealOut::Ok(_)) => Some("unbound-variable-accepted"),
        (Err(RErr::Extern), RealOut::Ok(_)) => Some("extern-error-swallowed"),
    }
}

fn type_of(v: &V) -> &'static str {
    match v {
        V::Int(_) => "int",
        V::Str(_) => "str",
        V::Date(_) => "date",
        V::Bytes(_) => "bytes",
        V::Bool(_) => "bool",
        V::Set(_) => "set",
        V::Null => "null",
        V::Array(_) => "array",
        V::Map(_) => "map",
    }
}

pub fn to_dl(ops: &[ROp], symbols: &mut SymbolTable) -> Vec<dl::Op> {
    rexpr::ops_to_builder(ops).iter().map(|o| o.convert(symbols)).collect()
}

fn show_ops(ops: &[ROp]) -> String {
    format!("{ops:?}")
}

fn closure_bodies() -> Vec<(&'static str, Vec<ROp>)> {
    use b::Binary as B;
    vec![
        ("$p", vec![ROp::Var("p".into())]),
        ("$p==1", vec![ROp::Var("p".into()), ROp::Val(V::Int(1)), ROp::Bin(B::HeterogeneousEqual)]),
        ("true", vec![ROp::Val(V::Bool(true))]),
        ("false", vec![ROp::Val(V::Bool(false))]),
        ("1", vec![ROp::Val(V::Int(1))]),
        ("$p.length()>0", vec![ROp::Var("p".into()), ROp::Un(b::Unary::Length), ROp::Val(V::Int(0)), ROp::Bin(B::GreaterThan)]),
        (
            "nested-any($q->$q==$p)",
            vec![
                ROp::Val(V::Array(vec![V::Int(1), V::Int(2)])),
                ROp::Closure(vec!["q".into()], vec![ROp::Var("q".into()), ROp::Var("p".into()), ROp::Bin(B::HeterogeneousEqual)]),
                ROp::Bin(B::Any),
            ],
        ),
        (
            "nested-shadowing($p->$p)",
            vec![ROp::Val(V::Array(vec![V::Bool(true)])), ROp::Closure(vec!["p".into()], vec![ROp::Var("p".into())]), ROp::Bin(B::All)],
        ),
        ("unbound-$u", vec![ROp::Var("u".into())]),
        ("bound-$v==1", vec![ROp::Var("v".into()), ROp::Val(V::Int(1)), ROp::Bin(B::HeterogeneousEqual)]),
        ("1/0>0", vec![ROp::Val(V::Int(1)), ROp::Val(V::Int(0)), ROp::Bin(B::Div), ROp::Val(V::Int(0)), ROp::Bin(B::GreaterThan)]),
        ("malformed(+)", vec![ROp::Bin(B::Add)]),
        ("leftover", vec![ROp::Val(V::Bool(true)), ROp::Val(V::Bool(true))]),
    ]
}

pub fn run(tier: Tier) {
    let ctx = Ctx::new("C06", tier);
    let bind = samples::bind_or_die();
    let vals = value_set();
    let mut symbols = SymbolTable::new();
    // intern everything up front so that one table serves all evaluations
    let v_idx = symbols.insert("v") as u32;
    let _ = symbols.insert("u");
    let _ = symbols.insert("p");
    let _ = symbols.insert("q");
    let mut vars = HashMap::new();
    vars.insert(v_idx, dl::Term::Integer(1));
    let mut env_vars = BTreeMap::new();
    env_vars.insert("v".to_string(), V::Int(1));

    let evals = AtomicUsize::new(0);
    let ok_cells = AtomicUsize::new(0);
    let outcomes: std::sync::Mutex<BTreeSet<String>> = std::sync::Mutex::new(BTreeSet::new());
    let samples_out = Samples::new(8);

    // ---------------- (1) full operator table
    struct Cell {
        name: String,
        class: String,
        rops: Vec<ROp>,
    }
    let mut cells: Vec<Cell> = vec![];
    for u in unaries() {
        for v in &vals {
            cells.push(Cell { name: format!("{u:?}({v:?})"), class: format!("unary/{u:?}/{}", type_of(v)), rops: vec![ROp::Val(v.clone()), ROp::Un(u.clone())] });
        }
    }
    for op in binaries() {
        for l in &vals {
            for r in &vals {
                cells.push(Cell {
                    name: format!("{l:?} {op:?} {r:?}"),
                    class: format!("binary/{op:?}/{}x{}", type_of(l), type_of(r)),
                    rops: vec![ROp::Val(l.clone()), ROp::Val(r.clone()), ROp::Bin(op.clone())],
                });
            }
        }
    }
    // closure-taking operators
    for op in [b::Binary::All, b::Binary::Any, b::Binary::LazyAnd, b::Binary::LazyOr, b::Binary::Add, b::Binary::Equal] {
        for l in &vals {
            for (bn, body) in closure_bodies() {
                for params in [vec![], vec!["p".to_string()], vec!["p".to_string(), "q".to_string()], vec!["v".to_string()]] {
                    cells.push(Cell {
                        name: format!("{l:?} {op:?} ({params:?} -> {bn})"),
                        class: format!("closure/{op:?}/{}/params={}/{bn}", type_of(l), if params == vec!["v".to_string()] { "bound-name".to_string() } else { params.len().to_string() }),
                        rops: vec![ROp::Val(l.clone()), ROp::Closure(params.clone(), body.clone()), ROp::Bin(op.clone())],
                    });
                }
            }
        }
    }
    // a closure where a term is expected
    for u in unaries() {
        cells.push(Cell { name: format!("{u:?}(closure)"), class: format!("unary-on-closure/{u:?}"), rops: vec![ROp::Closure(vec![], vec![ROp::Val(V::Bool(true))]), ROp::Un(u)] });
    }
    for op in binaries() {
        cells.push(Cell {
            name: format!("closure {op:?} true"),
            class: format!("closure-as-left-operand/{op:?}"),
            rops: vec![ROp::Closure(vec![], vec![ROp::Val(V::Bool(true))]), ROp::Val(V::Bool(true)), ROp::Bin(op)],
        });
    }
    // operands that are computed at evaluation time (strings that exist in no symbol table: concatenations,
    // .type() results): every operator on every pair of them
    {
        let cat = |a: &str, c: &str| vec![ROp::Val(V::Str(a.into())), ROp::Val(V::Str(c.into())), ROp::Bin(b::Binary::Add)];
        let computed: Vec<(&str, Vec<ROp>)> = vec![
            ("q7+w8z", cat("q7", "w8z")),
            ("q7w+8z", cat("q7w", "8z")),
            ("q7+w8", cat("q7", "w8")),
            ("type(1)", vec![ROp::Val(V::Int(1)), ROp::Un(b::Unary::TypeOf)]),
            ("type(2)", vec![ROp::Val(V::Int(2)), ROp::Un(b::Unary::TypeOf)]),
            ("type(true)", vec![ROp::Val(V::Bool(true)), ROp::Un(b::Unary::TypeOf)]),
        ];
        for op in binaries() {
            for (ln, l) in &computed {
                for (rn, r) in &computed {
                    let mut rops = l.clone();
                    rops.extend(r.clone());
                    rops.push(ROp::Bin(op.clone()));
                    cells.push(Cell { name: format!("({ln}) {op:?} ({rn})"), class: format!("computed-operands/{op:?}"), rops });
                }
            }
        }
        // a computed string that equals a default symbol of the language ("read", "admin", ...) is that string
        let defaults: Vec<(&str, Vec<ROp>, &str)> = vec![("re+ad", cat("re", "ad"), "read"), ("ad+min", cat("ad", "min"), "admin"), ("+user", cat("", "user"), "user"), ("wri+te", cat("wri", "te"), "write")];
        for op in binaries() {
            for (ln, l, lit) in &defaults {
                for (rn, r, lit2) in &defaults {
                    let mut rops = l.clone();
                    rops.extend(r.clone());
                    rops.push(ROp::Bin(op.clone()));
                    cells.push(Cell { name: format!("({ln}) {op:?} ({rn})"), class: format!("computed-default-symbol/{op:?}"), rops });
                    let _ = lit2;
                }
                for other in ["read", "admin", "user", "write", "rea"] {
                    let mut rops = l.clone();
                    rops.push(ROp::Val(V::Str(other.into())));
                    rops.push(ROp::Bin(op.clone()));
                    cells.push(Cell { name: format!("({ln}) {op:?} \"{other}\""), class: format!("computed-default-symbol-vs-literal/{op:?}"), rops });
                    let mut rops = vec![ROp::Val(V::Str(other.into()))];
                    rops.extend(l.clone());
                    rops.push(ROp::Bin(op.clone()));
                    cells.push(Cell { name: format!("\"{other}\" {op:?} ({ln})"), class: format!("literal-vs-computed-default-symbol/{op:?}"), rops });
                    let _ = lit;
                }
            }
        }
        // closures one after the other (and inside the lazy operand of && / ||) that use the same parameter name:
        // each application has its own scope, whether or not the previous one stopped early
        {
            use b::Binary as B;
            let arr = |v: Vec<i64>| ROp::Val(V::Array(v.into_iter().map(V::Int).collect()));
            let clo = |param: &str, k: i64| ROp::Closure(vec![param.to_string()], vec![ROp::Var(param.to_string()), ROp::Val(V::Int(k)), ROp::Bin(B::HeterogeneousEqual)]);
            for first_op in [B::Any, B::All] {
                for second_op in [B::Any, B::All] {
                    for k1 in [1i64, 2, 3, 9] {
                        for k2 in [3i64, 4, 9] {
                            for lazy in [B::LazyAnd, B::LazyOr, B::And, B::Or] {
                                let second = vec![arr(vec![3, 4]), clo("p", k2), ROp::Bin(second_op.clone())];
                                let mut rops = vec![arr(vec![1, 2, 3]), clo("p", k1), ROp::Bin(first_op.clone())];
                                if matches!(lazy, B::LazyAnd | B::LazyOr) {
                                    rops.push(ROp::Closure(vec![], second.clone()));
                                } else {
                                    rops.extend(second.clone());
                                }
                                rops.push(ROp::Bin(lazy.clone()));
                                cells.push(Cell { name: format!("[1,2,3].{first_op:?}($p -> $p == {k1}) {lazy:?} [3,4].{second_op:?}($p -> $p == {k2})"), class: format!("same-parameter-name-in-successive-closures/{first_op:?}/{lazy:?}"), rops });
                            }
                            // the parameter is not visible after the closure
                            let rops = vec![arr(vec![1, 2, 3]), clo("p", k1), ROp::Bin(first_op.clone()), ROp::Closure(vec![], vec![ROp::Var("p".into()), ROp::Val(V::Int(k2)), ROp::Bin(B::HeterogeneousEqual)]), ROp::Bin(B::LazyAnd)];
                            cells.push(Cell { name: format!("[1,2,3].{first_op:?}($p -> $p == {k1}) && $p == {k2}"), class: format!("closure-parameter-used-after-the-closure/{first_op:?}"), rops });
                        }
                    }
                }
            }
        }
        for u in unaries() {
            for (ln, l) in &computed {
                let mut rops = l.clone();
                rops.push(ROp::Un(u.clone()));
                cells.push(Cell { name: format!("{u:?}({ln})"), class: format!("computed-operand/{u:?}"), rops });
            }
        }
    }
    let dl_cells: Vec<Vec<dl::Op>> = cells.iter().map(|c| to_dl(&c.rops, &mut symbols)).collect();

    // ---------------- (2) alphabet for sequences
    let seq_alphabet: Vec<ROp> = {
        use b::Binary as B;
        vec![
            ROp::Val(V::Int(i64::MAX)),
            ROp::Val(V::Int(-1)),
            ROp::Val(V::Int(0)),
            ROp::Val(V::Str("a".into())),
            ROp::Val(set(vec![V::Int(1)])),
            ROp::Val(V::Array(vec![V::Int(1), V::Str("a".into())])),
            ROp::Val(V::Bool(true)),
            ROp::Var("v".into()),
            ROp::Var("u".into()),
            ROp::Un(b::Unary::Negate),
            ROp::Un(b::Unary::Length),
            ROp::Un(b::Unary::TypeOf),
            ROp::Bin(B::Add),
            ROp::Bin(B::Mul),
            ROp::Bin(B::Div),
            ROp::Bin(B::LessThan),
            ROp::Bin(B::Equal),
            ROp::Bin(B::HeterogeneousEqual),
            ROp::Bin(B::Contains),
            ROp::Bin(B::Union),
            ROp::Bin(B::And),
            ROp::Bin(B::LazyOr),
            ROp::Bin(B::Any),
            ROp::Bin(B::Get),
            ROp::Bin(B::Ffi("f".into())),
            ROp::Closure(vec![], vec![ROp::Val(V::Bool(true))]),
            ROp::Closure(vec!["p".into()], vec![ROp::Var("p".into()), ROp::Val(V::Int(1)), ROp::Bin(B::HeterogeneousEqual)]),
            ROp::Closure(vec!["v".into()], vec![ROp::Val(V::Bool(true))]),
        ]
    };
    let dl_alphabet: Vec<dl::Op> = seq_alphabet.iter().map(|o| to_dl(std::slice::from_ref(o), &mut symbols).remove(0)).collect();
    // unknown symbol (no panic sweep)
    let unknown = dl::Op::Value(dl::Term::Str(987654));

    let rc = RealCtx { symbols: symbols.clone(), ext: real_externs(), vars };
    let renv = || Env { vars: env_vars.clone(), ext: Some(&ref_extern) };

    // run the table
    cells.par_iter().zip(dl_cells.par_iter()).enumerate().for_each(|(i, (c, d))| {
        evals.fetch_add(1, Ordering::Relaxed);
        let reference = rexpr::eval(&c.rops, &renv());
        let real = real_eval(d, &rc);
        if reference.is_ok() {
            ok_cells.fetch_add(1, Ordering::Relaxed);
        }
        if i % 499 == 0 {
            samples_out.push(|| json!({"cell": c.name, "reference": format!("{reference:?}"), "real": format!("{real:?}")}));
        }
        if i % 17 == 0 {
            let mut o = outcomes.lock().unwrap();
            if o.len() < 2000 {
                o.insert(format!("{real:?}").chars().take(40).collect());
            }
        }
        if let Some(why) = disagree(&reference, &real) {
            let key = if why == "panic" {
                format!("C06/panic/{}", if let RealOut::Panic(p) = &real { panic_site(p) } else { String::new() })
            } else {
                format!("C06/table/{why}/{}", c.class)
            };
            ctx.violation_lazy(key, || json!({"cell": c.name, "ops": show_ops(&c.rops), "reference": format!("{reference:?}"), "real": format!("{real:?}")}));
        }
    });
    let table_cells = cells.len();

    // tie authorize() to evaluate(): every well-formed table cell as `check if <expr>`
    let through_authorize = AtomicUsize::new(0);
    cells.par_iter().for_each(|c| {
        let reference = rexpr::eval(&c.rops, &renv());
        if matches!(reference, Err(RErr::Ambiguous(_))) || c.class.starts_with("closure/") && c.rops.iter().any(|o| matches!(o, ROp::Closure(p, _) if p.contains(&"v".to_string()))) {
            return;
        }
        // $v is not bound in a body-less check: skip cells that use the bound variable
        if show_ops(&c.rops).contains("Var(\"v\")") {
            return;
        }
        through_authorize.fetch_add(1, Ordering::Relaxed);
        let empty: &[b::Term] = &[];
        let chk = b::Check {
            queries: vec![b::Rule::new(b::pred("query", empty), vec![], vec![b::Expression { ops: rexpr::ops_to_builder(&c.rops) }], vec![])],
            kind: b::CheckKind::One,
        };
        let out = guard(|| {
            let mut a = AuthorizerBuilder::new()
                .check(chk.clone())
                .map_err(|e| format!("add: {e:?}"))?
                .policy("allow if true")
                .map_err(|e| format!("{e:?}"))?
                .set_extern_funcs(real_externs())
                .limits(crate::c04::big_limits())
                .build_unauthenticated()
                .map_err(|e| format!("build: {e:?}"))?;
            Ok::<_, String>(a.authorize())
        });
        let verdict = match (&reference, &out) {
            (_, Err(p)) => Some(format!("panic/{}", panic_site(p))),
            (_, Ok(Err(e))) => {
                // the builder may refuse (e.g. unbound variable) : an error is acceptable only if the reference errs too
                if reference.is_ok() { Some(format!("builder-refused:{}", e.chars().take(30).collect::<String>())) } else { None }
            }
            (Ok(V::Bool(true)), Ok(Ok(Ok(0)))) => None,
            (Ok(V::Bool(false)), Ok(Ok(Err(error::Token::FailedLogic(_))))) => None,
            (Ok(V::Bool(_)), Ok(Ok(r))) => Some(format!("check-result-differs:{}", format!("{r:?}").chars().take(30).collect::<String>())),
            (Ok(_), Ok(Ok(Err(error::Token::Execution(_))))) => None,
            (Ok(_), Ok(Ok(_))) => Some("non-boolean-check-accepted".to_string()),
            (Err(_), Ok(Ok(Err(error::Token::Execution(_))))) => None,
            (Err(_), Ok(Ok(r))) => Some(format!("erroring-expression-not-reported:{}", format!("{r:?}").chars().take(30).collect::<String>())),
        };
        if let Some(v) = verdict {
            ctx.violation_lazy(format!("C06/authorize/{v}/{}", c.class), || json!({"cell": c.name, "reference": format!("{reference:?}"), "authorize": format!("{out:?}")}));
        }
    });

    // unknown-symbol sweep: must not panic
    let unk = AtomicUsize::new(0);
    let unk_cases: Vec<Vec<dl::Op>> = {
        let mut v = vec![];
        for u in unaries() {
            v.push(vec![unknown.clone(), to_dl(&[ROp::Un(u)], &mut symbols.clone()).remove(0)]);
        }
        for op in binaries() {
            let o = to_dl(&[ROp::Bin(op)], &mut symbols.clone()).remove(0);
            for other in &vals {
                let ov = to_dl(&[ROp::Val(other.clone())], &mut symbols.clone()).remove(0);
                v.push(vec![unknown.clone(), ov.clone(), o.clone()]);
                v.push(vec![ov, unknown.clone(), o.clone()]);
            }
            v.push(vec![unknown.clone(), unknown.clone(), o.clone()]);
        }
        v
    };
    unk_cases.par_iter().for_each(|ops| {
        unk.fetch_add(1, Ordering::Relaxed);
        if let RealOut::Panic(p) = real_eval(ops, &rc) {
            ctx.violation_lazy(format!("C06/panic/{}", panic_site(&p)), || json!({"ops": format!("{ops:?}"), "panic": p}));
        }
    });

    // ---------------- (2) all sequences up to length L
    let max_len = tier.pick(5, 6);
    let n = seq_alphabet.len();
    let seq_evals = AtomicU64::new(0);
    let seq_ok = AtomicU64::new(0);
    let first: Vec<usize> = (0..n).collect();
    first.par_iter().for_each(|f0| {
        // iterative enumeration of all sequences starting with f0
        let mut idx: Vec<usize> = vec![*f0];
        loop {
            let rops: Vec<ROp> = idx.iter().map(|i| seq_alphabet[*i].clone()).collect();
            let dops: Vec<dl::Op> = idx.iter().map(|i| dl_alphabet[*i].clone()).collect();
            let reference = rexpr::eval(&rops, &renv());
            let real = real_eval(&dops, &rc);
            seq_evals.fetch_add(1, Ordering::Relaxed);
            if reference.is_ok() {
                seq_ok.fetch_add(1, Ordering::Relaxed);
            }
            if let Some(why) = disagree(&reference, &real) {
                let key = if why == "panic" {
                    format!("C06/panic/{}", if let RealOut::Panic(p) = &real { panic_site(p) } else { String::new() })
                } else {
                    format!("C06/sequence/{why}/len={}", idx.len())
                };
                ctx.violation_lazy(key, || json!({"ops": show_ops(&rops), "reference": format!("{reference:?}"), "real": format!("{real:?}")}));
            }
            // next sequence in length-then-lexicographic order below f0
            if idx.len() < max_len {
                idx.push(0);
            } else {
                loop {
                    if idx.len() == 1 {
                        return;
                    }
                    let last = idx.len() - 1;
                    if idx[last] + 1 < n {
                        idx[last] += 1;
                        break;
                    }
                    idx.pop();
                }
            }
        }
    });

    let se = seq_evals.load(Ordering::Relaxed);
    let cov = json!({
        "states": table_cells + se as usize,
        "transitions": evals.load(Ordering::Relaxed) + se as usize + through_authorize.load(Ordering::Relaxed) + unk.load(Ordering::Relaxed),
        "traces_validated_against_impl": table_cells + se as usize,
        "operator_table_cells": table_cells,
        "operator_table_cells_with_defined_value": ok_cells.load(Ordering::Relaxed),
        "cells_also_run_through_authorize": through_authorize.load(Ordering::Relaxed),
        "unknown_symbol_no_panic_cases": unk.load(Ordering::Relaxed),
        "sequence_alphabet_size": n,
        "sequence_max_length": max_len,
        "sequences_evaluated": se,
        "sequences_with_defined_value": seq_ok.load(Ordering::Relaxed),
        "distinct_real_outcomes_sampled": outcomes.lock().unwrap().len(),
        "value_set_size": vals.len(),
        "reference_binding": {"sample_validations_reproduced_by_R-dl (expressions included)": bind.rdl_validations + bind.rdl_exec_error_validations},
        "exhaustive": true,
        "samples": samples_out.take(),
        "rule": "(1) every unary x value and every binary x value x value over a 23-value set covering all types, i64 extremes and empty collections; every closure-taking operator x left value x closure body x parameter list; closures in term positions; (2) every operation sequence (well-formed or not) up to the stated length over a 28-symbol alphabet; each evaluated by Expression::evaluate and by the reference evaluator R-expr (i128 arithmetic, explicit type table); table cells also through AuthorizerBuilder + authorize()",
    });
    ctx.finish(
        "model_checking",
        cov,
        vec![
            "R-expr is the definition of the expression semantics (bound to the samples through R-dl)".into(),
            "regular expressions are delegated to the regex crate on both sides".into(),
            "an erroring element next to a deciding element in all/any over an unordered set is accepted either way (order-dependent by construction)".into(),
        ],
    );
}

//! C05 — Datalog evaluation computes exactly the least fixpoint with exact provenance.
//! `datalog::World` (public API) against R-dl's naive fixpoint; insertion-order
//! permutations; hash-order exploration through the H1 seam.
use crate::common::*;
use crate::rdl::{self, Ground, Tm};
use crate::rexpr::{self, MK, V};
use crate::samples;
use biscuit_auth::builder as b;
use biscuit_auth::builder::Convert;
use biscuit_auth::datalog::{self as dl, RunLimits, SymbolTable, TrustedOrigins, World};
use rayon::prelude::*;
use serde_json::json;
use std::collections::{BTreeMap, BTreeSet};
use std::sync::atomic::{AtomicUsize, Ordering};
use std::time::Duration;

pub const A: usize = usize::MAX;

pub fn limits() -> RunLimits {
    RunLimits {
        max_facts: 1_000_000,
        max_iterations: 1_000_000,
        max_time: Duration::from_secs(3600),
    }
}

pub fn dl_term_to_v(t: &dl::Term, s: &SymbolTable) -> Result<V, String> {
    Ok(match t {
        dl::Term::Variable(v) => return Err(format!("variable {v} in a fact")),
        dl::Term::Integer(i) => V::Int(*i),
        dl::Term::Str(i) => V::Str(s.get_symbol(*i).ok_or(format!("unknown symbol {i}"))?.to_string()),
        dl::Term::Date(d) => V::Date(*d),
        dl::Term::Bytes(x) => V::Bytes(x.clone()),
        dl::Term::Bool(x) => V::Bool(*x),
        dl::Term::Null => V::Null,
        dl::Term::Set(x) => V::Set(x.iter().map(|t| dl_term_to_v(t, s)).collect::<Result<_, _>>()?),
        dl::Term::Array(x) => V::Array(x.iter().map(|t| dl_term_to_v(t, s)).collect::<Result<_, _>>()?),
        dl::Term::Map(m) => V::Map(
            m.iter()
                .map(|(k, v)| {
                    let k = match k {
                        dl::MapKey::Integer(i) => MK::Int(*i),
                        dl::MapKey::Str(i) => MK::Str(s.get_symbol(*i).ok_or(format!("unknown symbol {i}"))?.to_string()),
                    };
                    Ok((k, dl_term_to_v(v, s)?))
                })
                .collect::<Result<_, String>>()?,
        ),
    })
}

pub fn dl_fact_to_ground(f: &dl::Fact, s: &SymbolTable) -> Result<Ground, String> {
    Ok((
        s.get_symbol(f.predicate.name).ok_or("unknown predicate symbol")?.to_string(),
        f.predicate.terms.iter().map(|t| dl_term_to_v(t, s)).collect::<Result<_, _>>()?,
    ))
}

#[derive(Clone, Debug)]
pub struct WFact {
    pub origin: Vec<usize>,
    pub fact: b::Fact,
}
#[derive(Clone, Debug)]
pub struct WRule {
    pub owner: usize,
    pub trusted: Vec<usize>,
    pub rule: b::Rule,
}
#[derive(Clone, Debug)]
pub struct WorldCase {
    pub facts: Vec<WFact>,
    pub rules: Vec<WRule>,
}

fn show_origin(o: &[usize]) -> String {
    format!("{{{}}}", o.iter().map(|i| if *i == A { "A".to_string() } else { i.to_string() }).collect::<Vec<_>>().join(","))
}

impl WorldCase {
    pub fn show(&self) -> serde_json::Value {
        json!({
            "facts": self.facts.iter().map(|f| format!("{} @ {}", f.fact, show_origin(&f.origin))).collect::<Vec<_>>(),
            "rules": self.rules.iter().map(|r| format!("{} ; owner {} trusted {}", r.rule, show_origin(&[r.owner]), show_origin(&r.trusted))).collect::<Vec<_>>(),
        })
    }
}

pub type RealWorld = BTreeSet<(BTreeSet<usize>, Ground)>;

/// runs the real engine; facts / rules inserted in the given orders
pub fn run_real(case: &WorldCase, fperm: &[usize], rperm: &[usize]) -> Result<(RealWorld, World, SymbolTable), String> {
    let mut symbols = SymbolTable::new();
    let mut w = World::new();
    for i in fperm {
        let f = &case.facts[*i];
        let origin: dl::Origin = f.origin.iter().cloned().collect();
        w.add_fact(&origin, f.fact.convert(&mut symbols));
    }
    for i in rperm {
        let r = &case.rules[*i];
        let trusted: TrustedOrigins = r.trusted.iter().cloned().collect();
        w.add_rule(r.owner, &trusted, r.rule.convert(&mut symbols));
    }
    w.run_with_limits(&symbols, limits()).map_err(|e| format!("{e:?}"))?;
    let mut out = RealWorld::new();
    for (o, f) in w.facts.iter_all() {
        let os = format!("{o}");
        let mut set = BTreeSet::new();
        for part in os.split(',') {
            let part = part.trim();
            if part.is_empty() {
                continue;
            }
            set.insert(if part == "authorizer" { A } else { part.parse::<usize>().map_err(|e| e.to_string())? });
        }
        out.insert((set, dl_fact_to_ground(f, &symbols)?));
    }
    Ok((out, w, symbols))
}

pub fn run_ref(case: &WorldCase) -> Result<rdl::World, rexpr::RErr> {
    let mut world = rdl::World::new();
    for f in &case.facts {
        let p = rdl::pred(&f.fact.predicate).expect("ground fact");
        let g = (p.name.clone(), p.terms.iter().map(|t| match t { Tm::Val(v) => v.clone(), _ => panic!("var") }).collect());
        world.insert((f.origin.iter().cloned().collect(), g));
    }
    let rules: Vec<(rdl::RRule, usize, rdl::Origin)> = case
        .rules
        .iter()
        .map(|r| (rdl::rule(&r.rule).expect("rule"), r.owner, r.trusted.iter().cloned().collect()))
        .collect();
    rdl::fixpoint(world, &rules, None, 1000)
}

// ------------------------------------------------------------------ alphabet

fn vs() -> Vec<b::Term> {
    vec![
        b::int(1),
        b::int(2),
        b::string("a"),
        b::Term::Date(5),
        b::Term::Bytes(vec![1]),
        b::Term::Bool(true),
        b::Term::Set([b::int(1)].into_iter().collect()),
        b::Term::Null,
        b::Term::Array(vec![b::int(1)]),
        b::Term::Map([(b::MapKey::Integer(1), b::Term::Bool(true))].into_iter().collect()),
    ]
}

fn heq(var: &str, val: b::Term) -> b::Expression {
    b::Expression {
        ops: vec![b::Op::Value(b::var(var)), b::Op::Value(val), b::Op::Binary(b::Binary::HeterogeneousEqual)],
    }
}

/// rule templates: (name, rules)
pub fn templates() -> Vec<(&'static str, Vec<b::Rule>)> {
    let x = || b::var("x");
    let y = || b::var("y");
    let z = || b::var("z");
    let mut t: Vec<(&'static str, Vec<b::Rule>)> = vec![
        ("copy", vec![b::rule("r", &[x()], &[b::pred("p", &[x()])])]),
        ("projection", vec![b::rule("r", &[x()], &[b::pred("q", &[x(), y()])])]),
        ("repeated-var", vec![b::rule("r", &[x()], &[b::pred("q", &[x(), x()])])]),
        ("join", vec![b::rule("j", &[x(), z()], &[b::pred("e", &[x(), y()]), b::pred("e", &[y(), z()])])]),
        (
            "transitive-closure",
            vec![
                b::rule("t", &[x(), y()], &[b::pred("e", &[x(), y()])]),
                b::rule("t", &[x(), z()], &[b::pred("t", &[x(), y()]), b::pred("e", &[y(), z()])]),
            ],
        ),
        (
            "mutual-recursion",
            vec![
                b::rule("ma", &[x()], &[b::pred("p", &[x()])]),
                b::rule("mb", &[x()], &[b::pred("ma", &[x()])]),
                b::rule("ma", &[x()], &[b::pred("mb", &[x()])]),
            ],
        ),
        ("const-head", vec![b::rule("r", &[b::string("k")], &[b::pred("p", &[x()])])]),
        (
            "empty-body-expr",
            vec![b::constrained_rule::<b::Term, b::Predicate, b::Expression>(
                "r",
                &[b::int(1)],
                &[],
                &[b::Expression { ops: vec![b::Op::Value(b::Term::Bool(true))] }],
            )],
        ),
        ("unused-body-var", vec![b::rule("r", &[b::int(1)], &[b::pred("q", &[x(), y()])])]),
        ("head-var-absent-from-body", vec![b::rule("r", &[z()], &[b::pred("p", &[x()])])]),
        ("expression-filter", vec![b::constrained_rule("r", &[x()], &[b::pred("p", &[x()])], &[heq("x", b::int(1))])]),
        ("two-pred-join", vec![b::rule("r", &[x(), y()], &[b::pred("p", &[x()]), b::pred("q", &[x(), y()])])]),
        ("three-way-join", vec![b::rule("r3", &[x()], &[b::pred("p", &[x()]), b::pred("q", &[x(), y()]), b::pred("e", &[y(), z()])])]),
        ("same-var-across-and-within", vec![b::rule("r", &[x()], &[b::pred("q", &[x(), y()]), b::pred("q", &[y(), x()])])]),
        // the first predicate binds every variable; the trailing ones only add their origins - one derivation per
        // origin set under which the trailing fact exists
        ("trailing-predicate-all-bound", vec![b::rule("r", &[x(), y()], &[b::pred("q", &[x(), y()]), b::pred("p", &[x()])])]),
        ("trailing-constant-predicate", vec![b::rule("r", &[x()], &[b::pred("p", &[x()]), b::pred("p", &[b::int(1)])])]),
        ("same-predicate-three-times", vec![b::rule("r", &[x()], &[b::pred("p", &[x()]), b::pred("p", &[x()]), b::pred("p", &[x()])])]),
    ];
    // a constant of every term type in the body
    let names = ["int1", "int2", "str", "date", "bytes", "bool", "set", "null", "array", "map"];
    for (i, v) in vs().into_iter().enumerate() {
        let name: &'static str = Box::leak(format!("const-body-{}", names[i]).into_boxed_str());
        t.push((name, vec![b::rule("c", &[b::int(i as i64)], &[b::pred("p", &[v])])]));
    }
    t
}

fn fact(name: &str, terms: Vec<b::Term>, origin: &[usize]) -> WFact {
    WFact { origin: origin.to_vec(), fact: b::fact(name, &terms) }
}

/// fact bases: <= 4..6 facts, origins chosen to exercise provenance
pub fn fact_bases() -> Vec<Vec<WFact>> {
    let v = vs();
    let mut out = vec![
        vec![fact("p", vec![b::int(1)], &[0]), fact("p", vec![b::int(2)], &[1]), fact("q", vec![b::int(1), b::int(1)], &[0]), fact("q", vec![b::int(1), b::int(2)], &[2])],
        vec![fact("e", vec![b::int(1), b::int(2)], &[0]), fact("e", vec![b::int(2), b::int(3)], &[1]), fact("e", vec![b::int(3), b::int(1)], &[A]), fact("p", vec![b::int(1)], &[0, 1])],
        vec![fact("e", vec![b::int(1), b::int(2)], &[0, 2]), fact("e", vec![b::int(2), b::int(1)], &[1]), fact("q", vec![b::int(2), b::int(1)], &[A]), fact("q", vec![b::int(1), b::int(2)], &[0])],
        vec![fact("p", vec![b::int(1)], &[0]), fact("p", vec![b::int(1)], &[1]), fact("q", vec![b::int(1), b::int(2)], &[1]), fact("e", vec![b::int(2), b::int(2)], &[2])],
        vec![fact("q", vec![b::int(3), b::int(4)], &[0]), fact("q", vec![b::int(4), b::int(3)], &[0]), fact("q", vec![b::int(5), b::int(5)], &[1]), fact("p", vec![b::int(5)], &[A])],
        vec![],
        // the same facts under several origin sets
        vec![fact("p", vec![b::int(1)], &[0]), fact("p", vec![b::int(1)], &[1]), fact("p", vec![b::int(1)], &[2]), fact("q", vec![b::int(1), b::int(1)], &[0]), fact("q", vec![b::int(1), b::int(1)], &[A]), fact("q", vec![b::int(1), b::int(2)], &[1, 2])],
    ];
    // every term type as a p fact (two bases of five)
    out.push(v[..5].iter().enumerate().map(|(i, t)| fact("p", vec![t.clone()], &[i % 3])).collect());
    out.push(v[5..].iter().enumerate().map(|(i, t)| fact("p", vec![t.clone()], &[(i + 1) % 3])).collect());
    // look-alike values of different types
    out.push(vec![
        fact("p", vec![b::int(1)], &[0]),
        fact("p", vec![b::string("1")], &[0]),
        fact("p", vec![b::Term::Date(1)], &[1]),
        fact("p", vec![b::Term::Bool(true)], &[1]),
        fact("q", vec![b::int(1), b::string("1")], &[0]),
    ]);
    out
}

pub fn trusted_sets(owner: usize) -> Vec<Vec<usize>> {
    let others: Vec<usize> = [0usize, 1, 2, A].into_iter().filter(|o| *o != owner).collect();
    let mut out = vec![];
    for mask in 0..8u32 {
        let mut t = vec![owner];
        for (i, o) in others.iter().enumerate() {
            if mask & (1 << i) != 0 {
                t.push(*o);
            }
        }
        t.sort();
        out.push(t);
    }
    out
}

fn world_key(case_class: &str, what: &str) -> String {
    format!("C05/{what}/{case_class}")
}

/// compares one real run with the reference; returns the real world
fn compare(ctx: &Ctx, case: &WorldCase, class: &str, fperm: &[usize], rperm: &[usize], reference: &rdl::World, what: &str) -> Option<RealWorld> {
    match guard(|| run_real(case, fperm, rperm)) {
        Err(p) => {
            ctx.violation_lazy(format!("C05/panic/{}", panic_site(&p)), || json!({"world": case.show(), "panic": p}));
            None
        }
        Ok(Err(e)) => {
            ctx.violation_lazy(world_key(class, &format!("{what}-error")), || json!({"world": case.show(), "error": e, "fact_order": fperm, "rule_order": rperm}));
            None
        }
        Ok(Ok((real, _, _))) => {
            let refw: RealWorld = reference.iter().cloned().collect();
            if real != refw {
                let missing: Vec<_> = refw.difference(&real).map(|x| format!("{x:?}")).collect();
                let extra: Vec<_> = real.difference(&refw).map(|x| format!("{x:?}")).collect();
                let kind = match (missing.is_empty(), extra.is_empty()) {
                    (false, true) => "missing",
                    (true, false) => "extra",
                    _ => "missing+extra",
                };
                ctx.violation_lazy(world_key(class, &format!("{what}-{kind}")), || {
                    json!({"world": case.show(), "missing_in_real": missing, "extra_in_real": extra, "fact_order": fperm, "rule_order": rperm})
                });
            }
            Some(real)
        }
    }
}

pub fn run(tier: Tier) {
    let ctx = Ctx::new("C05", tier);
    let bind = samples::bind_or_die();
    let temps = templates();
    let bases = fact_bases();
    let owners = [0usize, 1, 2, A];

    // ---- enumerate worlds
    let mut cases: Vec<(String, WorldCase)> = vec![];
    // (a) every template x owner x trusted set x fact base
    for (tn, rules) in &temps {
        for owner in owners {
            for trusted in trusted_sets(owner) {
                for (bi, base) in bases.iter().enumerate() {
                    let _ = bi;
                    cases.push((
                        format!("{tn}"),
                        WorldCase { facts: base.clone(), rules: rules.iter().map(|r| WRule { owner, trusted: trusted.clone(), rule: r.clone() }).collect() },
                    ));
                }
            }
        }
    }
    let n_a = cases.len();
    // (b) pairs of templates with different owners / trusted sets
    let combos: Vec<((usize, Vec<usize>), (usize, Vec<usize>))> = vec![
        ((0, vec![0, A]), (1, vec![0, 1, A])),
        ((1, vec![1]), (A, vec![0, 1, 2, A])),
        ((2, vec![0, 2]), (0, vec![0])),
        ((A, vec![0, A]), (2, vec![1, 2, A])),
    ];
    let pair_temps: Vec<usize> = match tier {
        Tier::Quick => (0..temps.len()).collect(),
        Tier::Thorough => (0..temps.len()).collect(),
    };
    for i in &pair_temps {
        for j in &pair_temps {
            if i >= j {
                continue;
            }
            for (ca, cb) in &combos {
                for base in bases.iter().take(tier.pick(10, 10)) {
                    let mut rules = vec![];
                    for r in &temps[*i].1 {
                        rules.push(WRule { owner: ca.0, trusted: ca.1.clone(), rule: r.clone() });
                    }
                    for r in &temps[*j].1 {
                        rules.push(WRule { owner: cb.0, trusted: cb.1.clone(), rule: r.clone() });
                    }
                    cases.push((format!("{}+{}", temps[*i].0, temps[*j].0), WorldCase { facts: base.clone(), rules }));
                }
            }
        }
    }
    let n_b = cases.len() - n_a;
    // (c) provenance matrix: join / transitive closure over two facts with every origin assignment
    let origin_sets: Vec<Vec<usize>> = vec![vec![0], vec![1], vec![2], vec![A], vec![0, 1], vec![0, A], vec![1, 2]];
    for tn in ["join", "transitive-closure", "two-pred-join"] {
        let rules = &temps.iter().find(|t| t.0 == tn).unwrap().1;
        for o1 in &origin_sets {
            for o2 in &origin_sets {
                for owner in owners {
                    for trusted in trusted_sets(owner) {
                        let facts = if tn == "two-pred-join" {
                            vec![fact("p", vec![b::int(1)], o1), fact("q", vec![b::int(1), b::int(2)], o2)]
                        } else {
                            vec![fact("e", vec![b::int(1), b::int(2)], o1), fact("e", vec![b::int(2), b::int(3)], o2), fact("e", vec![b::int(3), b::int(1)], &[owner])]
                        };
                        cases.push((format!("provenance/{tn}"), WorldCase { facts, rules: rules.iter().map(|r| WRule { owner, trusted: trusted.clone(), rule: r.clone() }).collect() }));
                    }
                }
            }
        }
    }
    let n_c = cases.len() - n_a - n_b;
    // (d) the same rule supplied by two different owners under the same trusted set
    for (tn, rules) in &temps {
        for trusted in [vec![0usize, 1, A], vec![0, 1, 2, A], vec![1, 2], vec![0, A]] {
            for o1 in &trusted {
                for o2 in &trusted {
                    if o1 >= o2 {
                        continue;
                    }
                    for base in bases.iter().take(tier.pick(10, 10)) {
                        let mut rs = vec![];
                        for r in rules {
                            rs.push(WRule { owner: *o1, trusted: trusted.clone(), rule: r.clone() });
                        }
                        for r in rules {
                            rs.push(WRule { owner: *o2, trusted: trusted.clone(), rule: r.clone() });
                        }
                        cases.push((format!("same-rule-two-owners/{tn}"), WorldCase { facts: base.clone(), rules: rs }));
                    }
                }
            }
        }
    }
    let n_d = cases.len() - n_a - n_b - n_c;
    // (e) rule graphs: every set of 3 unary copy rules over {p, mid, r} x every owner assignment
    // x {own block + authority, everything} trusted sets: multi-round derivations that reach the
    // same fact through several provenances, in different rounds
    let shapes = [("mid", "p"), ("mid", "r"), ("r", "p"), ("r", "mid")];
    let owners3 = [0usize, 1, A];
    let graph_bases: Vec<Vec<WFact>> = vec![
        vec![fact("p", vec![b::int(1)], &[0])],
        vec![fact("p", vec![b::int(1)], &[0]), fact("p", vec![b::int(1)], &[1]), fact("mid", vec![b::int(2)], &[A])],
    ];
    for a in 0..shapes.len() {
        for bq in a..shapes.len() {
            for c in bq..shapes.len() {
                for oa in owners3 {
                    for ob in owners3 {
                        for oc in owners3 {
                            for tmask in 0..8u32 {
                                if tier == Tier::Quick && (tmask == 2 || tmask == 5) {
                                    continue;
                                }
                                let mk = |sh: (&str, &str), owner: usize, wide: bool| WRule {
                                    owner,
                                    trusted: if wide { vec![0, 1, owner, A] } else { vec![0, owner] }.into_iter().collect::<BTreeSet<_>>().into_iter().collect(),
                                    rule: b::rule(sh.0, &[b::var("x")], &[b::pred(sh.1, &[b::var("x")])]),
                                };
                                let rules = vec![mk(shapes[a], oa, tmask & 1 != 0), mk(shapes[bq], ob, tmask & 2 != 0), mk(shapes[c], oc, tmask & 4 != 0)];
                                for base in &graph_bases {
                                    cases.push(("rule-graph".to_string(), WorldCase { facts: base.clone(), rules: rules.clone() }));
                                }
                            }
                        }
                    }
                }
            }
        }
    }
    let n_e = cases.len() - n_a - n_b - n_c - n_d;

    let evals = AtomicUsize::new(0);
    let perm_runs = AtomicUsize::new(0);
    let order_runs = AtomicUsize::new(0);
    let query_cmp = AtomicUsize::new(0);
    let nonempty = AtomicUsize::new(0);
    let ref_errors = AtomicUsize::new(0);
    let samples_out = Samples::new(5);
    let hooks_on = cfg!(feature = "hooks");

    cases.par_iter().enumerate().for_each(|(ci, (class, case))| {
        let reference = match run_ref(case) {
            Ok(w) => w,
            Err(_) => {
                ref_errors.fetch_add(1, Ordering::Relaxed);
                return;
            }
        };
        evals.fetch_add(1, Ordering::Relaxed);
        if reference.len() > case.facts.len() {
            nonempty.fetch_add(1, Ordering::Relaxed);
        }
        let nf = case.facts.len();
        let nr = case.rules.len();
        let idf: Vec<usize> = (0..nf).collect();
        let idr: Vec<usize> = (0..nr).collect();
        let base = compare(&ctx, case, class, &idf, &idr, &reference, "fixpoint");
        if ci % 211 == 0 {
            samples_out.push(|| json!({"world": case.show(), "fixpoint_size": reference.len(), "derived": reference.len() - case.facts.iter().map(|f| format!("{:?}{}", f.origin, f.fact)).collect::<BTreeSet<_>>().len()}));
        }
        // insertion-order permutations (facts <= 4: all; rules <= 3: all)
        if ci < n_a + n_b {
            let fperms = if nf <= 4 { permutations(nf) } else { vec![idf.clone(), idf.iter().rev().cloned().collect()] };
            let rperms = if nr <= 3 { permutations(nr) } else { vec![idr.clone(), idr.iter().rev().cloned().collect()] };
            // the full product for the single-template worlds, the two diagonals otherwise
            let full = ci < n_a;
            for (a, fp) in fperms.iter().enumerate() {
                for (c, rp) in rperms.iter().enumerate() {
                    if (a == 0 && c == 0) || (!full && a != 0 && c != 0) {
                        continue;
                    }
                    perm_runs.fetch_add(1, Ordering::Relaxed);
                    compare(&ctx, case, class, fp, rp, &reference, "insertion-order");
                }
            }
        }
        // queries on the final world
        if let Some(_) = base {
            if let Ok(Ok((_, w, mut symbols))) = guard(|| run_real(case, &idf, &idr)) {
                for (qn, qrule) in [
                    ("q-r", b::rule("ans", &[b::var("x")], &[b::pred("r", &[b::var("x")])])),
                    ("q-p", b::rule("ans", &[b::var("x")], &[b::pred("p", &[b::var("x")])])),
                    ("q-t", b::rule("ans", &[b::var("x"), b::var("y")], &[b::pred("t", &[b::var("x"), b::var("y")])])),
                ] {
                    for trusted in [vec![A], vec![0, A], vec![0, 1, 2, A], vec![1, 2]] {
                        query_cmp.fetch_add(1, Ordering::Relaxed);
                        let rr = rdl::rule(&qrule).unwrap();
                        let tset: rdl::Origin = trusted.iter().cloned().collect();
                        let exp: BTreeSet<(BTreeSet<usize>, Ground)> = rdl::apply_rule(&rr, A, &tset, &reference, None).unwrap_or_default().into_iter().collect();
                        let dr = qrule.convert(&mut symbols);
                        let to: TrustedOrigins = trusted.iter().cloned().collect();
                        let got = guard(|| {
                            let fs = w.query_rule(dr.clone(), A, &to, &symbols).map_err(|e| format!("{e:?}"))?;
                            let mut out = BTreeSet::new();
                            for (o, f) in fs.iter_all() {
                                let mut set = BTreeSet::new();
                                for part in format!("{o}").split(',') {
                                    let part = part.trim();
                                    if !part.is_empty() {
                                        set.insert(if part == "authorizer" { A } else { part.parse::<usize>().unwrap() });
                                    }
                                }
                                out.insert((set, dl_fact_to_ground(f, &symbols)?));
                            }
                            let m = w.query_match(dr.clone(), A, &to, &symbols).map_err(|e| format!("{e:?}"))?;
                            let ma = w.query_match_all(dr.clone(), &to, &symbols).map_err(|e| format!("{e:?}"))?;
                            Ok::<_, String>((out, m, ma))
                        });
                        match got {
                            Err(p) => ctx.violation_lazy(format!("C05/panic/{}", panic_site(&p)), || json!({"world": case.show(), "panic": p})),
                            Ok(Err(e)) => ctx.violation_lazy(format!("C05/query-error/{qn}/{class}"), || json!({"world": case.show(), "error": e})),
                            Ok(Ok((facts, m, ma))) => {
                                if facts != exp {
                                    ctx.violation_lazy(format!("C05/query_rule/{qn}/{class}"), || json!({"world": case.show(), "query": format!("{qrule}"), "trusted": show_origin(&trusted), "real": format!("{facts:?}"), "reference": format!("{exp:?}")}));
                                }
                                // no expressions in these queries: match <=> non-empty; match_all <=> non-empty
                                if m != !exp.is_empty() || ma != !exp.is_empty() {
                                    ctx.violation_lazy(format!("C05/query_match/{qn}/{class}"), || json!({"world": case.show(), "query": format!("{qrule}"), "trusted": show_origin(&trusted), "match": m, "match_all": ma, "reference_nonempty": !exp.is_empty()}));
                                }
                            }
                        }
                    }
                }
            }
        }
        // hash-order exploration
        #[cfg(feature = "hooks")]
        {
            use biscuit_auth::verif_hooks as vh;
            // learn the key universe
            vh::record_seen(true);
            vh::set_order(Some(vh::OrderMode::Reversed));
            let _ = guard(|| run_real(case, &idf, &idr));
            let universe = vh::take_seen();
            vh::record_seen(false);
            let mut modes: Vec<vh::OrderMode> = vec![vh::OrderMode::Reversed];
            if universe.len() <= 5 && universe.len() >= 2 {
                for p in permutations(universe.len()) {
                    let ranks = universe.iter().enumerate().map(|(i, k)| (k.clone(), p[i] as i64)).collect();
                    modes.push(vh::OrderMode::Ranked(ranks));
                }
            } else {
                let n = if tier == Tier::Thorough { 120 } else { 24 };
                for s in 0..n {
                    modes.push(vh::OrderMode::Seeded(s as u64 * 7919 + 1 + ctx.seed));
                }
            }
            for m in modes {
                vh::set_order(Some(m));
                order_runs.fetch_add(1, Ordering::Relaxed);
                compare(&ctx, case, class, &idf, &idr, &reference, "hash-order");
            }
            vh::set_order(None);
        }
    });

    let ev = evals.load(Ordering::Relaxed);
    let cov = json!({
        "states": ev,
        "transitions": ev + perm_runs.load(Ordering::Relaxed) + order_runs.load(Ordering::Relaxed) + query_cmp.load(Ordering::Relaxed),
        "traces_validated_against_impl": ev,
        "worlds": {"template x owner x trusted x fact base": n_a, "template pairs": n_b, "provenance matrix": n_c, "same rule from two owners": n_d, "rule graphs (3 copy rules over p/mid/r x owners x trusted sets)": n_e},
        "worlds_where_rules_derive_something": nonempty.load(Ordering::Relaxed),
        "worlds_skipped_reference_expression_error": ref_errors.load(Ordering::Relaxed),
        "insertion_order_permutation_runs": perm_runs.load(Ordering::Relaxed),
        "hash_order_runs": order_runs.load(Ordering::Relaxed),
        "hash_order_seam_enabled": hooks_on,
        "query_comparisons": query_cmp.load(Ordering::Relaxed),
        "rule_templates": temps.iter().map(|t| t.0).collect::<Vec<_>>(),
        "reference_binding": {"sample_validations_reproduced_by_R-dl": bind.rdl_validations},
        "exhaustive": true,
        "samples": samples_out.take(),
        "rule": "worlds built through datalog::World::{add_fact,add_rule}: every rule template (copy, projection, repeated variable, joins, transitive closure, mutual recursion, constants of all 10 term types in body, constant head, empty body, unused / unbound head variables, expression filter) x owner in {0,1,2,authorizer} x all 8 trusted sets containing the owner x 9 fact bases (all term types, look-alike values, 1-2 element origin sets); all template pairs; full origin-assignment matrix for joins; run_with_limits result compared as a set of (origin set, fact) with the naive reference fixpoint; every insertion-order permutation (facts <= 4!, rules <= 3!) and every hash ranking (universe <= 5) or seeded orders must give the same set; query_rule/query_match/query_match_all compared on the final world",
    });
    ctx.finish(
        "model_checking",
        cov,
        vec![
            "R-dl's naive fixpoint (DESIGN Appendix A) is the definition of the least fixpoint with provenance".into(),
            "hash order is explored through the H1 seam: a global ranking of keys per execution (every permutation of a small key universe, seeded orders beyond)".into(),
        ],
    );
}

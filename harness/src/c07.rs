//! C07 — third-party blocks are bound to one signer and one position in one token.
use crate::c01::{judge_with, pools_of, signed_content, structured_mutants, token_class, Signed, TokView, Verdict};
use crate::common::*;
use crate::ehist;
use crate::tok::*;
use biscuit_auth::format::schema;
use biscuit_auth::{AuthorizerBuilder, Biscuit, KeyPair, ThirdPartyBlock, ThirdPartyRequest, UnverifiedBiscuit};
use prost::Message;
use rayon::prelude::*;
use serde_json::json;
use std::sync::atomic::{AtomicUsize, Ordering};
use std::sync::Mutex;

#[derive(Clone)]
struct State {
    hist: Vec<Op>,
    tok: Tok,
    last_sig: Vec<u8>,
    bytes: Vec<u8>,
}

#[derive(Clone)]
struct Resp {
    /// index of the state it was made for
    made_for: usize,
    signer: Alg,
    content: &'static str,
    obj: ThirdPartyBlock,
    bytes: Vec<u8>,
}

fn signer_key(a: Alg) -> KeyPair {
    match a {
        Alg::Ed => k1(),
        Alg::P256 => k2(),
    }
}

fn visible(t: &Biscuit, scope: &str) -> Result<bool, String> {
    // `query` observes the world with the default trust (authorizer + authority) or the given scope
    let mut a = AuthorizerBuilder::new().code("allow if true;").map_err(|e| format!("{e:?}"))?.limits(crate::c04::big_limits()).build(t).map_err(|e| format!("{e:?}"))?;
    let r: Vec<biscuit_auth::builder::Fact> = a.query(format!("q($x) <- tp($x){scope}").as_str()).map_err(|e| format!("{e:?}"))?;
    Ok(!r.is_empty())
}

pub fn run(tier: Tier) {
    let ctx = Ctx::new("C07", tier);
    let depth = tier.pick(2, 3);
    // ---- states
    let states: Mutex<Vec<State>> = Mutex::new(vec![]);
    let initial: Vec<Op> = ALGS.iter().map(|r| Op::Build { root: *r, next: Alg::Ed, content: "b0", kid: None }).collect();
    let next = |_h: &[Op], t: &Tok| {
        let mut v = vec![];
        if !t.is_sealed() {
            v.push(Op::Append { next: Alg::Ed, content: "b0" });
            v.push(Op::Append { next: Alg::P256, content: "b3" });
            v.push(Op::AppendTp { ext: Alg::Ed, next: Alg::Ed, content: "t0" });
            v.push(Op::AppendTp { ext: Alg::P256, next: Alg::Ed, content: "t1" });
            v.push(Op::AppendTp { ext: Alg::Ed, next: Alg::P256, content: "t1" });
        }
        v.push(Op::Convert);
        v
    };
    let st = ehist::bfs(
        initial,
        depth,
        500_000,
        &next,
        &|h, t| {
            if let Ok(bytes) = t.to_vec() {
                let last_sig = t.revocation_identifiers().last().cloned().unwrap_or_default();
                states.lock().unwrap().push(State { hist: h.to_vec(), tok: t.clone(), last_sig, bytes });
            }
        },
        &|_, _, _, _| {},
        &|h, _, op, e| ctx.observe(format!("transition refused: {} after {} ops: {}", op.show(), h.len(), e.chars().take(50).collect::<String>())),
    );
    let mut states = states.into_inner().unwrap();
    states.sort_by(|a, b| (&a.hist, a.tok.kind()).cmp(&(&b.hist, b.tok.kind())));
    // ---- response pool: r(s, signer, content) for every state
    let mut pool: Vec<Resp> = vec![];
    for (si, s) in states.iter().enumerate() {
        for signer in ALGS {
            for content in ["t0", "t1"] {
                let req: Result<ThirdPartyRequest, _> = match &s.tok {
                    Tok::V(b) => b.third_party_request(),
                    Tok::U(u) => u.third_party_request(),
                };
                let req = match req {
                    Ok(r) => r,
                    Err(e) => {
                        ctx.violation(format!("C07/third_party_request-refused/{}", s.tok.kind()), json!({"history": show_hist(&s.hist), "error": format!("{e:?}")}));
                        continue;
                    }
                };
                // the request travels as bytes
                let req = ThirdPartyRequest::deserialize(&req.serialize().unwrap()).unwrap();
                let obj = req.create_block(&signer_key(signer).private(), block_of(content)).unwrap();
                let bytes = obj.serialize().unwrap();
                pool.push(Resp { made_for: si, signer, content, obj, bytes });
            }
        }
    }
    let attempts = AtomicUsize::new(0);
    let accepted_legit = AtomicUsize::new(0);
    let refused = AtomicUsize::new(0);
    let samples_out = Samples::new(6);
    let legit_tokens: Mutex<Vec<(Vec<Op>, Vec<u8>, Alg, &'static str)>> = Mutex::new(vec![]);

    // ---- (1)+(2) every pooled response x every state, through both APIs
    states.par_iter().enumerate().for_each(|(si, s)| {
        let ra = hist_root(&s.hist);
        let rootk = root(ra).public();
        for (ri, r) in pool.iter().enumerate() {
            let made_for_this = states[r.made_for].last_sig == s.last_sig;
            let nk = next_key(Alg::Ed, Some(&s.tok), &Op::AppendTp { ext: r.signer, next: Alg::Ed, content: r.content });
            let claimed_keys: Vec<(&str, biscuit_auth::PublicKey)> = vec![("stated-key", signer_key(r.signer).public()), ("other-key", signer_key(if r.signer == Alg::Ed { Alg::P256 } else { Alg::Ed }).public())];
            let case = || json!({"state": show_hist(&s.hist), "state_kind": s.tok.kind(), "response_made_for": show_hist(&states[r.made_for].hist), "signer": r.signer.name(), "content": r.content});
            match &s.tok {
                Tok::V(b) => {
                    for (kname, k) in &claimed_keys {
                        attempts.fetch_add(1, Ordering::Relaxed);
                        let res = guard(|| b.append_third_party_with_keypair(*k, r.obj.clone(), KeyPair::from(&nk.private())));
                        let ok = matches!(res, Ok(Ok(_)));
                        if let Err(p) = &res {
                            ctx.violation_lazy(format!("C07/panic/{}", panic_site(p)), || json!({"case": case(), "panic": p}));
                        }
                        let should = made_for_this && *kname == "stated-key";
                        if ok && !should {
                            let why = if !made_for_this { "replayed-at-another-position-or-token" } else { "attributed-to-another-key" };
                            ctx.violation_lazy(format!("C07/Biscuit::append_third_party-accepts/{why}"), case);
                        } else if !ok && should {
                            ctx.violation_lazy("C07/legitimate-response-refused/Biscuit".to_string(), || json!({"case": case(), "error": format!("{:?}", res.map(|r| r.map(|_| ())))}));
                        } else if ok {
                            accepted_legit.fetch_add(1, Ordering::Relaxed);
                            if let Ok(Ok(t)) = res {
                                if ri % 4 == 0 {
                                    legit_tokens.lock().unwrap().push((s.hist.clone(), t.to_vec().unwrap(), r.signer, r.content));
                                }
                                // isolation: the carrier's tables do not change
                                let tables = |t: &Biscuit| t.print().lines().skip(1).take(2).collect::<Vec<_>>().join("\n");
                                if tables(&t) != tables(b) {
                                    ctx.violation_lazy("C07/third-party-block-extends-token-tables".to_string(), || json!({"case": case(), "before": tables(b), "after": tables(&t)}));
                                }
                                // the block prints what its author wrote, from its own tables
                                let src = t.print_block_source(t.block_count() - 1).unwrap_or_default();
                                let want = block_of(r.content).to_string();
                                let norm = |s: &str| s.replace(['\n', ' '], "");
                                if norm(&src) != norm(&want) {
                                    ctx.violation_lazy(format!("C07/third-party-block-source-differs/{}", r.content), || json!({"case": case(), "printed": src, "written": want}));
                                }
                                // facts trusted only by scopes naming its key
                                let kp = pk_str(&signer_key(r.signer).public());
                                let other = pk_str(&signer_key(if r.signer == Alg::Ed { Alg::P256 } else { Alg::Ed }).public());
                                let had_tp_by_other = s.hist.iter().any(|o| matches!(o, Op::AppendTp { ext, .. } if *ext != r.signer));
                                let had_tp_same = s.hist.iter().any(|o| matches!(o, Op::AppendTp { ext, .. } if *ext == r.signer));
                                for (scope, expect) in [("".to_string(), Some(false)), (" trusting authority".to_string(), Some(false)), (format!(" trusting {kp}"), Some(true)), (format!(" trusting {other}"), if had_tp_by_other { None } else { Some(false) })] {
                                    let _ = had_tp_same;
                                    if let (Ok(v), Some(e)) = (visible(&t, &scope), expect) {
                                        if v != e {
                                            ctx.violation_lazy(format!("C07/third-party-facts-visibility/{}", if scope.is_empty() { "default" } else if scope.contains("authority") { "authority" } else if e { "own-key-not-trusted" } else { "other-key-trusted" }), || json!({"case": case(), "scope": scope, "visible": v}));
                                        }
                                    }
                                }
                            }
                        } else {
                            refused.fetch_add(1, Ordering::Relaxed);
                        }
                    }
                }
                Tok::U(u) => {
                    attempts.fetch_add(1, Ordering::Relaxed);
                    let res = guard(|| u.append_third_party_with_keypair(&r.bytes, KeyPair::from(&nk.private())));
                    match res {
                        Err(p) => ctx.violation_lazy(format!("C07/panic/{}", panic_site(&p)), || json!({"case": case(), "panic": p})),
                        Ok(Err(_)) => {
                            if made_for_this {
                                ctx.violation_lazy("C07/legitimate-response-refused/UnverifiedBiscuit".to_string(), case);
                            } else {
                                refused.fetch_add(1, Ordering::Relaxed);
                            }
                        }
                        Ok(Ok(nu)) => {
                            // the unverified type may be built; it must never become a verified Biscuit
                            let nb = nu.to_vec().unwrap_or_default();
                            let verifies = guard(|| nu.clone().verify(rootk).is_ok()).unwrap_or(true);
                            let loads = guard(|| Biscuit::from(&nb, rootk).is_ok()).unwrap_or(true);
                            if (verifies || loads) != made_for_this {
                                if made_for_this {
                                    ctx.violation_lazy("C07/legitimate-third-party-token-does-not-verify/UnverifiedBiscuit".to_string(), case);
                                } else {
                                    ctx.violation_lazy(format!("C07/replayed-response-becomes-verified-token/{}", if verifies { "verify" } else { "Biscuit::from" }), || json!({"case": case(), "token_hex": hex::encode(&nb)}));
                                }
                            } else if made_for_this {
                                accepted_legit.fetch_add(1, Ordering::Relaxed);
                            } else {
                                refused.fetch_add(1, Ordering::Relaxed);
                            }
                        }
                    }
                }
            }
        }
        if si % 17 == 0 {
            samples_out.push(|| json!({"state": show_hist(&s.hist), "kind": s.tok.kind(), "responses_tried": pool.len()}));
        }
    });

    // ---- (3) alterations of the response / request messages (bytes: unverified API)
    let alterations = AtomicUsize::new(0);
    let u_states: Vec<&State> = states.iter().filter(|s| matches!(s.tok, Tok::U(_))).collect();
    u_states.par_iter().for_each(|s| {
        let Tok::U(u) = &s.tok else { return };
        let rootk = root(hist_root(&s.hist)).public();
        let mine: Vec<&Resp> = pool.iter().filter(|r| states[r.made_for].last_sig == s.last_sig && states[r.made_for].tok.kind() == "UnverifiedBiscuit").collect();
        for r in &mine {
            let c = schema::ThirdPartyBlockContents::decode(&r.bytes[..]).unwrap();
            let mut variants: Vec<(String, schema::ThirdPartyBlockContents)> = vec![];
            for (pos, name) in [(0usize, "first"), (c.payload.len() / 2, "middle"), (c.payload.len() - 1, "last")] {
                let mut m = c.clone();
                m.payload[pos] ^= 1;
                variants.push((format!("payload-bit-flip-{name}"), m));
            }
            for o in pool.iter().filter(|o| o.bytes != r.bytes).take(tier.pick(24, 200)) {
                let oc = schema::ThirdPartyBlockContents::decode(&o.bytes[..]).unwrap();
                let mut m = c.clone();
                m.payload = oc.payload.clone();
                variants.push(("payload-of-another-response".into(), m));
                let mut m = c.clone();
                m.external_signature.signature = oc.external_signature.signature.clone();
                variants.push(("signature-of-another-response".into(), m));
                let mut m = c.clone();
                m.external_signature.public_key = oc.external_signature.public_key.clone();
                variants.push(("public-key-of-another-response".into(), m));
            }
            for a in [0, 1, 2, -1] {
                if a != c.external_signature.public_key.algorithm {
                    let mut m = c.clone();
                    m.external_signature.public_key.algorithm = a;
                    variants.push((format!("algorithm-id-{a}"), m));
                }
            }
            let mut m = c.clone();
            m.external_signature.signature = vec![];
            variants.push(("empty-signature".into(), m));
            for (name, v) in variants {
                if v == c {
                    continue;
                }
                alterations.fetch_add(1, Ordering::Relaxed);
                let vb = v.encode_to_vec();
                let nk = key(Alg::Ed, ROLE_NEXT, 77);
                let res = guard(|| u.append_third_party_with_keypair(&vb, nk));
                match res {
                    Err(p) => ctx.violation_lazy(format!("C07/panic/{}", panic_site(&p)), || json!({"state": show_hist(&s.hist), "alteration": name, "panic": p})),
                    Ok(Err(_)) => {}
                    Ok(Ok(nu)) => {
                        let nb = nu.to_vec().unwrap_or_default();
                        if guard(|| nu.clone().verify(rootk).is_ok() || Biscuit::from(&nb, rootk).is_ok()).unwrap_or(true) {
                            ctx.violation_lazy(format!("C07/altered-response-becomes-verified-token/{name}"), || json!({"state": show_hist(&s.hist), "alteration": name, "token_hex": hex::encode(&nb)}));
                        }
                    }
                }
            }
        }
    });
    // requests with legacy fields set are refused
    for (name, req) in [
        ("legacy-previous-key", schema::ThirdPartyBlockRequest { legacy_previous_key: Some(k1().public().to_proto()), legacy_public_keys: vec![], previous_signature: vec![1; 64] }),
        ("legacy-public-keys", schema::ThirdPartyBlockRequest { legacy_previous_key: None, legacy_public_keys: vec![k1().public().to_proto()], previous_signature: vec![1; 64] }),
    ] {
        alterations.fetch_add(1, Ordering::Relaxed);
        if guard(|| ThirdPartyRequest::deserialize(&req.encode_to_vec()).is_ok()).unwrap_or(true) {
            ctx.violation(format!("C07/request-with-{name}-accepted"), json!({}));
        }
    }

    // ---- (4) wire-level faults on tokens that carry a third-party block
    let mut legit = legit_tokens.into_inner().unwrap();
    legit.sort();
    legit.dedup_by(|a, b| a.1 == b.1);
    let protos: Vec<(Vec<Op>, schema::Biscuit, Vec<u8>)> = legit.iter().map(|(h, b, _, _)| (h.clone(), schema::Biscuit::decode(&b[..]).unwrap(), b.clone())).collect();
    let state_protos: Vec<schema::Biscuit> = states.iter().map(|s| schema::Biscuit::decode(&s.bytes[..]).unwrap()).collect();
    let legit_set: std::collections::HashSet<String> = protos.iter().map(|p| &p.1).chain(state_protos.iter()).map(|p| format!("{:?}", signed_content(p).unwrap())).collect();
    let is_legit = |sc: &Signed| legit_set.contains(&format!("{:?}", sc));
    let faults = AtomicUsize::new(0);
    let limit = tier.pick(48, 2000);
    protos.par_iter().take(limit).for_each(|(h, p, bytes)| {
        let rootk = root(hist_root(h)).public();
        let partners: Vec<&schema::Biscuit> = protos.iter().filter(|x| x.0[0] == h[0]).map(|x| &x.1).chain(state_protos.iter().filter(|u| u.authority == p.authority)).collect();
        let pools = pools_of(partners.into_iter());
        let orig = signed_content(p).unwrap();
        let view = match Biscuit::from(bytes, rootk) {
            Ok(t) => TokView::of(&t),
            Err(_) => return,
        };
        for m in structured_mutants(p, &pools) {
            // operators that concern third-party blocks or whole blocks
            if !(m.class.contains("external_signature") || m.class.starts_with("blocks/") || m.class.starts_with("version/") || m.class.contains("third-party")) {
                continue;
            }
            let vb = m.token.encode_to_vec();
            if vb == *bytes {
                continue;
            }
            faults.fetch_add(1, Ordering::Relaxed);
            match judge_with(&orig, &view, &vb, &rootk, &is_legit) {
                Verdict::Rejected | Verdict::SameContent | Verdict::OtherHonestToken => {}
                Verdict::Forged(why) => {
                    // ECDSA s-negation of the last signature is C01 / C15's known finding
                    if m.class.contains("ecdsa-s-negation") && m.class.starts_with("signature/") {
                        ctx.observe(format!("accepted: {}", m.class));
                    } else {
                        ctx.violation_lazy(format!("C07/token-fault-accepted/{}", m.class), || json!({"history": format!("{} ; + third-party block", show_hist(h)), "operator": m.class, "why": why, "variant": hex::encode(&vb)}));
                    }
                }
                Verdict::Panic(pn) => ctx.violation_lazy(format!("C07/panic/{}", panic_site(&pn)), || json!({"operator": m.class, "panic": pn})),
            }
        }
    });

    // ---- scopes inside a third-party block are resolved against its own key table only
    // token: authority ; optional first-party block interning keys into the carrier table (always-true checks) ;
    // provider block signed by P carrying pv(1) ; consumer block signed by another key with
    // `check if pv(1) trusting <C>` : authorized iff C == P, whatever the carrier table holds
    let scope_cfgs = AtomicUsize::new(0);
    let scope_outcomes: Mutex<std::collections::BTreeMap<String, usize>> = Mutex::new(Default::default());
    {
        let keys: Vec<KeyPair> = vec![ext_key(Alg::Ed, 0), ext_key(Alg::P256, 0), ext_key(Alg::Ed, 1), ext_key(Alg::P256, 1)];
        let key_names = ["K1(ed25519)", "K2(secp256r1)", "K3(ed25519)", "K4(secp256r1)"];
        let prefixes: Vec<Vec<usize>> = vec![vec![], vec![0], vec![1], vec![2], vec![0, 1], vec![1, 0], vec![2, 3, 0], vec![3, 2, 1, 0]];
        let mut cfgs = vec![];
        for root_alg in ALGS {
            for pre in &prefixes {
                for p_signer in 0..3usize {
                    for c_scope in 0..3usize {
                        for consumer_first in [false, true] {
                            for via_unverified in [false, true] {
                                for block_level in [false, true] {
                                    cfgs.push((root_alg, pre.clone(), p_signer, c_scope, consumer_first, via_unverified, block_level));
                                }
                            }
                        }
                    }
                }
            }
        }
        cfgs.par_iter().for_each(|(root_alg, pre, p_signer, c_scope, consumer_first, via_unverified, block_level)| {
            scope_cfgs.fetch_add(1, Ordering::Relaxed);
            let describe = || json!({"root": root_alg.name(), "carrier_key_table": pre.iter().map(|i| key_names[*i]).collect::<Vec<_>>(), "provider_signed_by": key_names[*p_signer], "consumer_scope": key_names[*c_scope], "consumer_before_provider": consumer_first, "through_unverified_api": via_unverified, "scope_given_at_block_level": block_level});
            let r = guard(|| -> Result<String, String> {
                let e = |x: biscuit_auth::error::Token| format!("{x:?}");
                let mut t = biscuit_auth::builder::BiscuitBuilder::new().code("auth(0);").map_err(e)?.build_with_key_pair(&root(*root_alg), biscuit_auth::datalog::SymbolTable::new(), &key(Alg::Ed, ROLE_NEXT, 20)).map_err(e)?;
                if !pre.is_empty() {
                    let code: String = pre.iter().map(|i| format!("check if true trusting {};", pk_str(&keys[*i].public()))).collect();
                    t = t.append_with_keypair(&key(Alg::Ed, ROLE_NEXT, 21), biscuit_auth::builder::BlockBuilder::new().code(code).map_err(e)?).map_err(e)?;
                }
                // the consumer is signed by a key that is neither the provider's nor the one it names
                let consumer_signer = (0..4usize).find(|k| k != p_signer && k != c_scope).unwrap();
                let provider = ("pv(1);".to_string(), *p_signer);
                let consumer = (if *block_level { "check if pv(1);".to_string() } else { format!("check if pv(1) trusting {};", pk_str(&keys[*c_scope].public())) }, consumer_signer);
                let order = if *consumer_first { vec![consumer, provider] } else { vec![provider, consumer] };
                for (n, (code, signer)) in order.iter().enumerate() {
                    let mut block = biscuit_auth::builder::BlockBuilder::new().code(code).map_err(e)?;
                    if *block_level && code.starts_with("check") {
                        // the same scope given for the whole block through the builder API
                        block = block.scope(biscuit_auth::builder::Scope::PublicKey(keys[*c_scope].public()));
                    }
                    if *via_unverified {
                        let u = UnverifiedBiscuit::from(&t.to_vec().map_err(e)?).map_err(e)?;
                        let req = u.third_party_request().map_err(e)?;
                        let resp = req.create_block(&keys[*signer].private(), block).map_err(e)?;
                        let u2 = u.append_third_party_with_keypair(&resp.serialize().map_err(e)?, key(Alg::Ed, ROLE_NEXT, 22 + n as u8)).map_err(e)?;
                        t = u2.verify(root(*root_alg).public()).map_err(|x| format!("{x:?}"))?;
                    } else {
                        let req = t.third_party_request().map_err(e)?;
                        let resp = req.create_block(&keys[*signer].private(), block).map_err(e)?;
                        t = t.append_third_party_with_keypair(keys[*signer].public(), resp, key(Alg::Ed, ROLE_NEXT, 22 + n as u8)).map_err(e)?;
                    }
                }
                // also after a reload
                let reloaded = Biscuit::from(&t.to_vec().map_err(e)?, root(*root_alg).public()).map_err(e)?;
                let mut out = vec![];
                for tok in [&t, &reloaded] {
                    let mut a = AuthorizerBuilder::new().code("allow if true;").map_err(e)?.limits(crate::c04::big_limits()).build(tok).map_err(e)?;
                    out.push(match a.authorize() {
                        Ok(_) => "authorized".to_string(),
                        Err(biscuit_auth::error::Token::FailedLogic(_)) => "check-failed".to_string(),
                        Err(x) => format!("error {x:?}"),
                    });
                }
                if out[0] != out[1] {
                    return Err(format!("in memory {} / reloaded {}", out[0], out[1]));
                }
                Ok(out[0].clone())
            });
            let expected = if p_signer == c_scope { "authorized" } else { "check-failed" };
            match r {
                Err(pn) => ctx.violation_lazy(format!("C07/panic/{}", panic_site(&pn)), || json!({"case": describe(), "panic": pn})),
                Ok(Err(e)) => ctx.violation_lazy("C07/third-party-scope-resolution/construction-failed".to_string(), || json!({"case": describe(), "error": e})),
                Ok(Ok(o)) => {
                    *scope_outcomes.lock().unwrap().entry(o.clone()).or_default() += 1;
                    if o != expected {
                        let k = if pre.is_empty() { "empty-carrier-table" } else { "carrier-table-holds-other-keys" };
                        ctx.violation_lazy(format!("C07/third-party-scope-resolution/{k}/{}", if expected == "authorized" { "own-scope-key-not-honoured" } else { "trusts-a-key-it-does-not-name" }), || json!({"case": describe(), "observed": o, "expected": expected}));
                    }
                }
            }
        });
    }

    // ---- third-party blocks in the deprecated layout (signature version 0), which only
    // Biscuit::unsafe_deprecated_deserialize admits: the external signature still has to be the stated key's
    // signature over the payload and the previous block's next key
    let legacy_cases = AtomicUsize::new(0);
    let legacy_accepted_valid = AtomicUsize::new(0);
    {
        let mut cfgs = vec![];
        for root_alg in ALGS {
            for ext_alg in ALGS {
                for variant in ["valid", "signed-by-another-key", "zeroed", "other-payload", "made-for-another-previous-key", "truncated", "v1-layout-under-version-0"] {
                    cfgs.push((root_alg, ext_alg, variant));
                }
            }
        }
        cfgs.par_iter().for_each(|(root_alg, ext_alg, variant)| {
            legacy_cases.fetch_add(1, Ordering::Relaxed);
            let r = guard(|| -> Result<(bool, bool), String> {
                let rootk = root(*root_alg);
                let n0 = key(Alg::Ed, ROLE_NEXT, 60);
                let n1 = key(Alg::Ed, ROLE_NEXT, 61);
                let extk = ext_key(*ext_alg, 0);
                let other = ext_key(*ext_alg, 1);
                let auth_payload = schema::Biscuit::decode(&biscuit_auth::builder::BiscuitBuilder::new().code("auth(0);").unwrap().build_with_key_pair(&rootk, biscuit_auth::datalog::SymbolTable::new(), &n0).unwrap().to_vec().unwrap()[..]).unwrap().authority.block;
                let tp_payload = {
                    // a block payload with its own symbol table, as a third-party block has
                    let t = biscuit_auth::builder::BiscuitBuilder::new().code("group(\"admin\");").unwrap().build_with_key_pair(&rootk, biscuit_auth::datalog::SymbolTable::new(), &n0).unwrap();
                    schema::Biscuit::decode(&t.to_vec().unwrap()[..]).unwrap().authority.block
                };
                let n0pk = proto_key(&n0.public());
                let n1pk = proto_key(&n1.public());
                // authority, version 0 (ed25519 only) or 1
                let av = if *root_alg == Alg::Ed { 0 } else { 1 };
                let am = payload_block(av, true, &auth_payload, &n0pk, None, &[])?;
                let authority = schema::SignedBlock { block: auth_payload, next_key: n0pk.clone(), signature: raw_sign(&rootk, &am), external_signature: None, version: if av > 0 { Some(av) } else { None } };
                let good = payload_external_v0(&tp_payload, &n0pk);
                let ext_sig = match *variant {
                    "valid" => raw_sign(&extk, &good),
                    "signed-by-another-key" => raw_sign(&other, &good),
                    "zeroed" => vec![0u8; raw_sign(&extk, &good).len()],
                    "other-payload" => raw_sign(&extk, &payload_external_v0(b"something else", &n0pk)),
                    "made-for-another-previous-key" => raw_sign(&extk, &payload_external_v0(&tp_payload, &n1pk)),
                    "truncated" => {
                        let mut x = raw_sign(&extk, &good);
                        x.pop();
                        x
                    }
                    _ => raw_sign(&extk, &payload_external(&tp_payload, &authority.signature)),
                };
                let bm = payload_block(0, false, &tp_payload, &n1pk, Some(&ext_sig), &authority.signature)?;
                let block = schema::SignedBlock { block: tp_payload, next_key: n1pk, signature: raw_sign(&n0, &bm), external_signature: Some(schema::ExternalSignature { signature: ext_sig, public_key: proto_key(&extk.public()) }), version: None };
                let tok = schema::Biscuit { root_key_id: None, authority, blocks: vec![block], proof: schema::Proof { content: Some(schema::proof::Content::NextSecret(n1.private().to_bytes().to_vec())) } };
                let bytes = tok.encode_to_vec();
                let safe = Biscuit::from(&bytes, rootk.public()).is_ok();
                let unsafe_ok = match Biscuit::unsafe_deprecated_deserialize(&bytes, rootk.public()) {
                    Ok(t) => {
                        // attributed to the stated key
                        let _ = t.external_public_keys();
                        true
                    }
                    Err(_) => false,
                };
                Ok((safe, unsafe_ok))
            });
            let desc = || json!({"root": root_alg.name(), "external_key": ext_alg.name(), "external_signature": variant});
            match r {
                Err(pn) => ctx.violation_lazy(format!("C07/panic/{}", panic_site(&pn)), || json!({"case": desc(), "panic": pn})),
                Ok(Err(e)) => ctx.violation_lazy("C07/legacy-third-party/construction-failed".to_string(), || json!({"case": desc(), "error": e})),
                Ok(Ok((safe, unsafe_ok))) => {
                    if safe {
                        ctx.violation_lazy(format!("C07/legacy-third-party-block-accepted-by-Biscuit::from/{variant}"), desc);
                    }
                    if *variant == "valid" {
                        if unsafe_ok {
                            legacy_accepted_valid.fetch_add(1, Ordering::Relaxed);
                        } else {
                            ctx.observe("a well-formed legacy third-party block is refused by unsafe_deprecated_deserialize".to_string());
                        }
                    } else if unsafe_ok {
                        ctx.violation_lazy(format!("C07/legacy-third-party-block-accepted-with-invalid-external-signature/{variant}"), desc);
                    }
                }
            }
        });
    }

    let cov = json!({
        "legacy_layout_third_party_configurations": legacy_cases.load(Ordering::Relaxed),
        "legacy_layout_valid_blocks_accepted_by_the_deprecated_loader": legacy_accepted_valid.load(Ordering::Relaxed),
        "third_party_scope_resolution_configurations": scope_cfgs.load(Ordering::Relaxed),
        "third_party_scope_resolution_outcomes": scope_outcomes.into_inner().unwrap(),
        "states": states.len(),
        "transitions": attempts.load(Ordering::Relaxed),
        "traces_validated_against_impl": attempts.load(Ordering::Relaxed),
        "state_search": {"states": st.states, "transitions": st.transitions, "depth_after_build": st.max_depth},
        "pooled_responses": pool.len(),
        "append_attempts (state x response x claimed key, both APIs)": attempts.load(Ordering::Relaxed),
        "accepted (made for exactly this state by exactly this key)": accepted_legit.load(Ordering::Relaxed),
        "refused": refused.load(Ordering::Relaxed),
        "message_alterations": alterations.load(Ordering::Relaxed),
        "tokens_with_third_party_block_mutated": protos.len().min(limit),
        "wire_faults_on_those_tokens": faults.load(Ordering::Relaxed),
        "exhaustive": !st.capped,
        "samples": samples_out.take(),
        "rule": "states = explicit-state BFS over build/append/append_third_party/convert (both root algorithms, both APIs); in every unsealed state a response is made for each signer (ed25519 K1, secp256r1 K2) x content; every pooled response is then appended to every state through Biscuit::append_third_party (claiming the stated key and the other key) and UnverifiedBiscuit::append_third_party (+ verify, + Biscuit::from): accepted iff made for exactly this state by exactly this key; legit results are checked for isolation (carrier tables unchanged, own source printed, facts visible only under `trusting <its key>`); every alteration of the response message (payload bits, payload / signature / key of another response, algorithm id) and legacy request fields; every third-party-related wire fault of the C01 engine on the resulting tokens",
    });
    ctx.finish("model_checking", cov, vec!["cryptographic hardness assumed".into(), "the verified API takes response objects (no bytes): alterations are enumerated through the unverified API".into()]);
}

//! C01 — forged, tampered, spliced or truncated tokens never verify.
//! Also hosts the mutation engine shared with C07 / C08 / C15.
use crate::common::*;
use crate::ehist;
use crate::tok::*;
use biscuit_auth::format::schema;
use biscuit_auth::{Biscuit, KeyPair, PublicKey, UnverifiedBiscuit};
use prost::Message;
use rayon::prelude::*;
use serde_json::json;
use std::collections::{BTreeMap, BTreeSet};
use std::sync::atomic::{AtomicUsize, Ordering};
use std::sync::Mutex;

/// canonical signed content of a wire token
#[derive(Clone, Debug, PartialEq, Eq)]
pub struct Signed {
    pub blocks: Vec<(Vec<u8>, i32, Vec<u8>, Vec<u8>, Option<(i32, Vec<u8>, Vec<u8>)>, u32)>,
    pub proof: (u8, Vec<u8>),
}

pub fn canon_pk(k: &schema::PublicKey) -> Option<(i32, Vec<u8>)> {
    match k.algorithm {
        0 => Some((0, k.key.clone())),
        1 => p256::ecdsa::VerifyingKey::from_sec1_bytes(&k.key)
            .ok()
            .map(|vk| (1, vk.to_encoded_point(true).as_bytes().to_vec())),
        _ => None,
    }
}

pub fn signed_content(t: &schema::Biscuit) -> Option<Signed> {
    let mut blocks = vec![];
    for b in std::iter::once(&t.authority).chain(t.blocks.iter()) {
        let (a, k) = canon_pk(&b.next_key)?;
        let ext = match &b.external_signature {
            None => None,
            Some(e) => {
                let (ea, ek) = canon_pk(&e.public_key)?;
                Some((ea, ek, e.signature.clone()))
            }
        };
        blocks.push((
            b.block.clone(),
            a,
            k,
            b.signature.clone(),
            ext,
            b.version.unwrap_or(0),
        ));
    }
    let proof = match &t.proof.content {
        Some(schema::proof::Content::NextSecret(s)) => (0, s.clone()),
        Some(schema::proof::Content::FinalSignature(s)) => (1, s.clone()),
        None => return None,
    };
    Some(Signed { blocks, proof })
}

pub struct Corpus {
    pub tokens: Vec<CorpusTok>,
}
#[derive(Clone)]
pub struct CorpusTok {
    pub hist: Vec<Op>,
    pub bytes: Vec<u8>,
    pub proto: schema::Biscuit,
    pub root_alg: Alg,
    pub sealed: bool,
}

/// class of a token, for stable violation keys: block kinds + algorithms + sealed
pub fn token_class(h: &[Op]) -> String {
    let mut s = String::new();
    for op in h {
        match op {
            Op::Build { root, next, content, .. } => {
                s += &format!("A[{}>{}{}]", root.name(), next.name(), if *content == "b5" { ",v6" } else { "" })
            }
            Op::Append { next, content } => {
                s += &format!("+B[{}{}]", next.name(), if *content == "b5" { ",v6" } else { "" })
            }
            Op::AppendTp { ext, next, .. } => s += &format!("+T[{}>{}]", ext.name(), next.name()),
            Op::Seal => s += "+seal",
            _ => {}
        }
    }
    s
}

pub fn build_corpus(depth: usize, contents: &'static [&'static str], tp: &'static [&'static str], kids: &[Option<u32>]) -> (Corpus, ehist::Stats) {
    let toks: Mutex<Vec<CorpusTok>> = Mutex::new(vec![]);
    let mut initial = vec![];
    for r in ALGS {
        for n in ALGS {
            for c in contents {
                for k in kids {
                    initial.push(Op::Build { root: r, next: n, content: c, kid: *k });
                }
            }
        }
    }
    let next = move |_h: &[Op], t: &Tok| {
        let mut v = vec![];
        if !t.is_sealed() {
            for n in ALGS {
                for c in contents {
                    v.push(Op::Append { next: n, content: c });
                }
            }
            for e in ALGS {
                for n in ALGS {
                    for c in tp {
                        v.push(Op::AppendTp { ext: e, next: n, content: c });
                    }
                }
            }
            v.push(Op::Seal);
        }
        v
    };
    let st = ehist::bfs(
        initial,
        depth,
        1_000_000,
        &next,
        &|h, t| {
            let bytes = t.to_vec().expect("corpus token serializes");
            let proto = schema::Biscuit::decode(&bytes[..]).expect("decodes");
            toks.lock().unwrap().push(CorpusTok {
                hist: h.to_vec(),
                root_alg: hist_root(h),
                sealed: t.is_sealed(),
                bytes,
                proto,
            });
        },
        &|_, _, _, _| {},
        &|h, _, op, e| panic!("corpus op refused: {} ; {} : {}", show_hist(h), op.show(), e),
    );
    let mut tokens = toks.into_inner().unwrap();
    tokens.sort_by(|a, b| a.hist.cmp(&b.hist));
    (Corpus { tokens }, st)
}

/// value pools gathered from a token and its partners
#[derive(Default)]
pub struct Pools {
    pub payloads: Vec<Vec<u8>>,
    pub keys: Vec<schema::PublicKey>,
    pub sigs: Vec<Vec<u8>>,
    pub exts: Vec<schema::ExternalSignature>,
    pub blocks: Vec<schema::SignedBlock>,
    pub proofs: Vec<schema::Proof>,
}

pub fn pools_of<'a>(toks: impl Iterator<Item = &'a schema::Biscuit>) -> Pools {
    let mut p = Pools::default();
    let mut seen_p = BTreeSet::new();
    let mut seen_k = BTreeSet::new();
    let mut seen_s = BTreeSet::new();
    let mut seen_e = BTreeSet::new();
    let mut seen_b = BTreeSet::new();
    let mut seen_pr = BTreeSet::new();
    for t in toks {
        for b in std::iter::once(&t.authority).chain(t.blocks.iter()) {
            if seen_p.insert(b.block.clone()) {
                p.payloads.push(b.block.clone());
            }
            if seen_k.insert(b.next_key.encode_to_vec()) {
                p.keys.push(b.next_key.clone());
            }
            if seen_s.insert(b.signature.clone()) {
                p.sigs.push(b.signature.clone());
            }
            if let Some(e) = &b.external_signature {
                if seen_e.insert(e.encode_to_vec()) {
                    p.exts.push(e.clone());
                }
                // an external signature can also be tried as a block signature
                if seen_s.insert(e.signature.clone()) {
                    p.sigs.push(e.signature.clone());
                }
            }
            if seen_b.insert(b.encode_to_vec()) {
                p.blocks.push(b.clone());
            }
        }
        if seen_pr.insert(t.proof.encode_to_vec()) {
            p.proofs.push(t.proof.clone());
        }
    }
    p
}

fn flip(v: &[u8], first: bool) -> Vec<u8> {
    let mut v = v.to_vec();
    if v.is_empty() {
        return vec![1];
    }
    if first {
        v[0] ^= 0x80;
    } else {
        let n = v.len();
        v[n - 1] ^= 1;
    }
    v
}

fn byte_variants(v: &[u8]) -> Vec<(&'static str, Vec<u8>)> {
    let mut out = vec![
        ("flip-first-bit", flip(v, true)),
        ("flip-last-bit", flip(v, false)),
        ("extend-1", {
            let mut x = v.to_vec();
            x.push(0);
            x
        }),
        ("empty", vec![]),
    ];
    if !v.is_empty() {
        out.push(("truncate-1", v[..v.len() - 1].to_vec()));
        out.push(("zero", vec![0; v.len()]));
    }
    out
}

// --- signature algebra -------------------------------------------------------

/// ECDSA (r,s) -> (r, n-s), DER encoded; None if not a p256 DER signature
pub fn ecdsa_negate_s(sig: &[u8]) -> Option<Vec<u8>> {
    let s = p256::ecdsa::Signature::from_der(sig).ok()?;
    let (r, sv) = s.split_scalars();
    let neg = -*sv;
    let s2 = p256::ecdsa::Signature::from_scalars(*r, neg).ok()?;
    Some(s2.to_der().as_bytes().to_vec())
}

/// non-canonical DER re-encodings of an ECDSA signature
pub fn der_reencodings(sig: &[u8]) -> Vec<(&'static str, Vec<u8>)> {
    let mut out = vec![];
    if sig.len() < 8 || sig[0] != 0x30 {
        return out;
    }
    // trailing garbage
    let mut t = sig.to_vec();
    t.push(0);
    out.push(("der-trailing-byte", t));
    // long-form length for the SEQUENCE
    if sig[1] < 0x80 {
        let mut l = vec![0x30, 0x81, sig[1]];
        l.extend_from_slice(&sig[2..]);
        out.push(("der-long-form-length", l));
    }
    // leading zero padding of r
    if sig[2] == 0x02 && sig[1] < 0x7f {
        let rl = sig[3] as usize;
        let mut p = vec![0x30, sig[1] + 1, 0x02, sig[3] + 1, 0x00];
        p.extend_from_slice(&sig[4..4 + rl]);
        p.extend_from_slice(&sig[4 + rl..]);
        out.push(("der-zero-padded-r", p));
    }
    out
}

/// ed25519: S -> S + L (non-canonical scalar), if it fits in 32 bytes
pub fn ed_s_plus_l(sig: &[u8]) -> Option<Vec<u8>> {
    if sig.len() != 64 {
        return None;
    }
    const L: [u8; 32] = [
        0xed, 0xd3, 0xf5, 0x5c, 0x1a, 0x63, 0x12, 0x58, 0xd6, 0x9c, 0xf7, 0xa2, 0xde, 0xf9, 0xde, 0x14, 0, 0, 0, 0,
        0, 0, 0, 0, 0, 0, 0, 0, 0, 0, 0, 0x10,
    ];
    let mut out = sig.to_vec();
    let mut carry = 0u16;
    for i in 0..32 {
        let v = sig[32 + i] as u16 + L[i] as u16 + carry;
        out[32 + i] = (v & 0xff) as u8;
        carry = v >> 8;
    }
    if carry != 0 {
        return None;
    }
    Some(out)
}

pub fn sig_algebra(sig: &[u8]) -> Vec<(&'static str, Vec<u8>)> {
    let mut out = vec![];
    if let Some(n) = ecdsa_negate_s(sig) {
        if n != sig {
            out.push(("ecdsa-s-negation", n));
        }
    }
    out.extend(der_reencodings(sig));
    if let Some(s) = ed_s_plus_l(sig) {
        out.push(("ed25519-s-plus-l", s));
    }
    if sig.len() == 64 {
        // fixed-size signature followed by extra bytes
        let mut t = sig.to_vec();
        t.push(0);
        out.push(("ed25519-trailing-byte", t));
        let mut t = sig.to_vec();
        t.extend_from_slice(sig);
        out.push(("ed25519-signature-doubled", t));
    }
    out
}

fn key_reencodings(k: &schema::PublicKey) -> Vec<(&'static str, schema::PublicKey)> {
    let mut out = vec![];
    if k.algorithm == 1 {
        if let Ok(vk) = p256::ecdsa::VerifyingKey::from_sec1_bytes(&k.key) {
            let unc = vk.to_encoded_point(false).as_bytes().to_vec();
            let comp = vk.to_encoded_point(true).as_bytes().to_vec();
            out.push(("p256-uncompressed", schema::PublicKey { algorithm: 1, key: if k.key == unc { comp.clone() } else { unc.clone() } }));
            let mut wrong = comp.clone();
            wrong[0] ^= 1;
            out.push(("p256-wrong-parity", schema::PublicKey { algorithm: 1, key: wrong }));
            let mut hybrid = unc.clone();
            hybrid[0] = 0x06 | (comp[0] & 1);
            out.push(("p256-hybrid", schema::PublicKey { algorithm: 1, key: hybrid }));
        }
    }
    out
}

pub struct Mutant {
    /// operator class (stable; part of the violation key)
    pub class: String,
    pub token: schema::Biscuit,
}

fn role(i: usize, n: usize) -> &'static str {
    if i == 0 {
        "authority"
    } else if i + 1 == n {
        "last-block"
    } else {
        "middle-block"
    }
}

fn block_mut(t: &schema::Biscuit, i: usize) -> schema::SignedBlock {
    if i == 0 {
        t.authority.clone()
    } else {
        t.blocks[i - 1].clone()
    }
}
fn with_block(t: &schema::Biscuit, i: usize, b: schema::SignedBlock) -> schema::Biscuit {
    let mut t = t.clone();
    if i == 0 {
        t.authority = b;
    } else {
        t.blocks[i - 1] = b;
    }
    t
}

/// every structured single mutation of `t` (DESIGN C01, fault classes 1 and 2)
pub fn structured_mutants(t: &schema::Biscuit, pools: &Pools) -> Vec<Mutant> {
    let n = 1 + t.blocks.len();
    let mut out = vec![];
    let mut push = |class: String, token: schema::Biscuit| out.push(Mutant { class, token });
    for i in 0..n {
        let b = block_mut(t, i);
        let r = role(i, n);
        let tp = if b.external_signature.is_some() { "third-party" } else { "first-party" };
        // payload
        for (name, v) in byte_variants(&b.block) {
            let mut nb = b.clone();
            nb.block = v;
            push(format!("payload/{name}/{r}/{tp}"), with_block(t, i, nb));
        }
        for p in &pools.payloads {
            if *p != b.block {
                let mut nb = b.clone();
                nb.block = p.clone();
                push(format!("payload/splice/{r}/{tp}"), with_block(t, i, nb));
            }
        }
        // next key
        for alg in [0, 1, 2, -1] {
            if alg != b.next_key.algorithm {
                let mut nb = b.clone();
                nb.next_key.algorithm = alg;
                push(format!("next_key.algorithm/set-{alg}/{r}/{tp}"), with_block(t, i, nb));
            }
        }
        for (name, v) in byte_variants(&b.next_key.key) {
            let mut nb = b.clone();
            nb.next_key.key = v;
            push(format!("next_key.key/{name}/{r}/{tp}"), with_block(t, i, nb));
        }
        for k in &pools.keys {
            if *k != b.next_key {
                let mut nb = b.clone();
                nb.next_key = k.clone();
                push(format!("next_key/splice/{r}/{tp}"), with_block(t, i, nb));
            }
        }
        for (name, k) in key_reencodings(&b.next_key) {
            let mut nb = b.clone();
            nb.next_key = k;
            push(format!("next_key/{name}/{r}/{tp}"), with_block(t, i, nb));
        }
        // signature
        for (name, v) in byte_variants(&b.signature) {
            let mut nb = b.clone();
            nb.signature = v;
            push(format!("signature/{name}/{r}/{tp}"), with_block(t, i, nb));
        }
        for s in &pools.sigs {
            if *s != b.signature {
                let mut nb = b.clone();
                nb.signature = s.clone();
                push(format!("signature/splice/{r}/{tp}"), with_block(t, i, nb));
            }
        }
        for (name, v) in sig_algebra(&b.signature) {
            let mut nb = b.clone();
            nb.signature = v;
            let sealed = matches!(t.proof.content, Some(schema::proof::Content::FinalSignature(_)));
            push(
                format!("signature/{name}/{r}/{tp}/{}", if sealed { "sealed" } else { "unsealed" }),
                with_block(t, i, nb),
            );
        }
        // version
        for v in [None, Some(0), Some(1), Some(2), Some(u32::MAX)] {
            if v.unwrap_or(0) != b.version.unwrap_or(0) || (v == Some(0) && b.version.is_none()) {
                let mut nb = b.clone();
                nb.version = v;
                push(format!("version/set-{v:?}/{r}/{tp}"), with_block(t, i, nb));
            }
        }
        // external signature
        match &b.external_signature {
            Some(e) => {
                let mut nb = b.clone();
                nb.external_signature = None;
                push(format!("external_signature/strip/{r}"), with_block(t, i, nb));
                for (name, v) in byte_variants(&e.signature) {
                    let mut nb = b.clone();
                    nb.external_signature.as_mut().unwrap().signature = v;
                    push(format!("external_signature.signature/{name}/{r}"), with_block(t, i, nb));
                }
                for (name, v) in sig_algebra(&e.signature) {
                    let mut nb = b.clone();
                    nb.external_signature.as_mut().unwrap().signature = v;
                    push(format!("external_signature.signature/{name}/{r}"), with_block(t, i, nb));
                }
                for alg in [0, 1, 2] {
                    if alg != e.public_key.algorithm {
                        let mut nb = b.clone();
                        nb.external_signature.as_mut().unwrap().public_key.algorithm = alg;
                        push(format!("external_signature.public_key.algorithm/set-{alg}/{r}"), with_block(t, i, nb));
                    }
                }
                for (name, v) in byte_variants(&e.public_key.key) {
                    let mut nb = b.clone();
                    nb.external_signature.as_mut().unwrap().public_key.key = v;
                    push(format!("external_signature.public_key.key/{name}/{r}"), with_block(t, i, nb));
                }
                for (name, k) in key_reencodings(&e.public_key) {
                    let mut nb = b.clone();
                    nb.external_signature.as_mut().unwrap().public_key = k;
                    push(format!("external_signature.public_key/{name}/{r}"), with_block(t, i, nb));
                }
                for o in &pools.exts {
                    if o != e {
                        let mut nb = b.clone();
                        nb.external_signature = Some(o.clone());
                        push(format!("external_signature/splice/{r}"), with_block(t, i, nb.clone()));
                        let mut nb2 = b.clone();
                        nb2.external_signature.as_mut().unwrap().public_key = o.public_key.clone();
                        push(format!("external_signature.public_key/splice/{r}"), with_block(t, i, nb2));
                        let mut nb3 = b.clone();
                        nb3.external_signature.as_mut().unwrap().signature = o.signature.clone();
                        push(format!("external_signature.signature/splice/{r}"), with_block(t, i, nb3));
                    }
                }
                for k in [k1(), k2(), ext_key(Alg::Ed, 1), ext_key(Alg::P256, 1)] {
                    let pk = k.public().to_proto();
                    if pk != e.public_key {
                        let mut nb = b.clone();
                        nb.external_signature.as_mut().unwrap().public_key = pk;
                        push(format!("external_signature.public_key/re-attribute/{r}"), with_block(t, i, nb));
                    }
                }
            }
            None => {
                for o in &pools.exts {
                    let mut nb = b.clone();
                    nb.external_signature = Some(o.clone());
                    push(format!("external_signature/attach/{r}"), with_block(t, i, nb.clone()));
                    nb.version = Some(1);
                    push(format!("external_signature/attach+v1/{r}"), with_block(t, i, nb));
                }
            }
        }
    }
    // whole-block operators
    for k in 1..n {
        let mut m = t.clone();
        m.blocks.remove(k - 1);
        push(format!("blocks/delete/{}", role(k, n)), m);
        let mut m = t.clone();
        m.blocks.truncate(k - 1);
        push("blocks/truncate-suffix".to_string(), m);
    }
    for k in 0..n {
        let b = block_mut(t, k);
        for pos in 0..=t.blocks.len() {
            let mut m = t.clone();
            m.blocks.insert(pos, b.clone());
            push(format!("blocks/duplicate/{}", role(k, n)), m);
        }
    }
    for i in 0..n {
        for j in (i + 1)..n {
            let (bi, bj) = (block_mut(t, i), block_mut(t, j));
            let m = with_block(&with_block(t, i, bj), j, bi);
            push("blocks/transpose".to_string(), m);
        }
    }
    for b in &pools.blocks {
        for pos in 0..=t.blocks.len() {
            let mut m = t.clone();
            m.blocks.insert(pos, b.clone());
            push("blocks/insert-foreign".to_string(), m);
        }
        for i in 0..n {
            if block_mut(t, i) != *b {
                push(format!("blocks/replace-foreign/{}", role(i, n)), with_block(t, i, b.clone()));
            }
        }
    }
    // proof operators
    let sealed = matches!(t.proof.content, Some(schema::proof::Content::FinalSignature(_)));
    let st = if sealed { "sealed" } else { "unsealed" };
    match &t.proof.content {
        Some(schema::proof::Content::NextSecret(s)) => {
            let mut m = t.clone();
            m.proof.content = Some(schema::proof::Content::FinalSignature(s.clone()));
            push("proof/secret-as-final-signature".into(), m);
            for (name, v) in byte_variants(s) {
                let mut m = t.clone();
                m.proof.content = Some(schema::proof::Content::NextSecret(v));
                push(format!("proof/secret/{name}"), m);
            }
        }
        Some(schema::proof::Content::FinalSignature(s)) => {
            let mut m = t.clone();
            m.proof.content = Some(schema::proof::Content::NextSecret(s.clone()));
            push("proof/final-signature-as-secret".into(), m);
            for (name, v) in byte_variants(s) {
                let mut m = t.clone();
                m.proof.content = Some(schema::proof::Content::FinalSignature(v));
                push(format!("proof/seal/{name}"), m);
            }
            for (name, v) in sig_algebra(s) {
                let mut m = t.clone();
                m.proof.content = Some(schema::proof::Content::FinalSignature(v));
                push(format!("proof/seal/{name}"), m);
            }
            // a block signature used as seal
            for sg in &pools.sigs {
                let mut m = t.clone();
                m.proof.content = Some(schema::proof::Content::FinalSignature(sg.clone()));
                push("proof/seal/splice-block-signature".into(), m);
            }
        }
        None => {}
    }
    let mut m = t.clone();
    m.proof.content = None;
    push("proof/empty".into(), m);
    for p in &pools.proofs {
        if *p != t.proof {
            let mut m = t.clone();
            m.proof = p.clone();
            push(format!("proof/splice/{st}"), m);
        }
    }
    // forged suffix: an attacker who does not hold the secret re-signs the chain from block i on with
    // own keys (block i signed by an unrelated key, later blocks chained properly to the attacker's keys,
    // proof made with the attacker's last key); the external signature of block i stays valid (it signs the
    // unchanged previous signature), so the only wrong thing is the signature of block i
    for i in 0..n {
        for attacker_alg in [Alg::Ed, Alg::P256] {
            for new_payload in [false, true] {
                let mut m = t.clone();
                let mut prev_sig: Vec<u8> = if i == 0 { vec![] } else { block_mut(t, i - 1).signature.clone() };
                let mut signer = key(attacker_alg, 7, 100);
                for j in i..n {
                    let mut b = block_mut(&m, j);
                    let next = key(attacker_alg, 7, 101 + j as u8);
                    if new_payload && j == i && b.external_signature.is_none() {
                        // a different (validly encoded) payload of the same token, if there is one
                        if let Some(other) = (0..n).map(|k| block_mut(t, k).block).find(|x| *x != b.block) {
                            b.block = other;
                        }
                    }
                    b.next_key = proto_key(&next.public());
                    // later third-party blocks would need the external signer again: keep them first-party-signed only
                    // when their external signature is still valid (j == i); otherwise drop the external part
                    if j > i {
                        b.external_signature = None;
                    }
                    let version = b.version.unwrap_or(0).max(if attacker_alg == Alg::P256 || b.external_signature.is_some() { 1 } else { 0 });
                    b.version = if version > 0 { Some(version) } else { None };
                    let msg = match payload_block(version, j == 0, &b.block, &b.next_key, b.external_signature.as_ref().map(|e| &e.signature[..]), &prev_sig) {
                        Ok(m) => m,
                        Err(_) => break,
                    };
                    b.signature = raw_sign(&signer, &msg);
                    prev_sig = b.signature.clone();
                    signer = KeyPair::from(&next.private());
                    m = with_block(&m, j, b);
                }
                let last = block_mut(&m, n - 1);
                m.proof.content = Some(match &t.proof.content {
                    Some(schema::proof::Content::FinalSignature(_)) => {
                        let mut x = last.block.clone();
                        x.extend_from_slice(&last.next_key.algorithm.to_le_bytes());
                        x.extend_from_slice(&last.next_key.key);
                        x.extend_from_slice(&last.signature);
                        schema::proof::Content::FinalSignature(raw_sign(&signer, &x))
                    }
                    _ => schema::proof::Content::NextSecret(signer.private().to_bytes().to_vec()),
                });
                push(format!("forged-suffix/from-{}/{}{}", role(i, n), if matches!(t.proof.content, Some(schema::proof::Content::FinalSignature(_))) { "sealed" } else { "unsealed" }, if new_payload { "/other-payload" } else { "" }), m);
            }
        }
    }
    // unauthenticated hint
    for kid in [None, Some(0), Some(7), Some(u32::MAX)] {
        if kid != t.root_key_id {
            let mut m = t.clone();
            m.root_key_id = kid;
            push("root_key_id/change (allowed: unauthenticated)".into(), m);
        }
    }
    out
}

#[derive(Debug, PartialEq, Eq, Clone)]
pub enum Verdict {
    Rejected,
    SameContent,
    /// the variant is, block for block and proof included, another honestly issued token
    OtherHonestToken,
    /// accepted although the signed content differs
    Forged(String),
    Panic(String),
}

/// the C01 oracle for one variant of the bytes of `orig`
pub fn judge(orig: &Signed, orig_view: &TokView, variant: &[u8], rootk: &PublicKey) -> Verdict {
    judge_with(orig, orig_view, variant, rootk, &|_| false)
}

/// `legit(sc)`: the accepted content is exactly another honestly issued token
pub fn judge_with(
    orig: &Signed,
    orig_view: &TokView,
    variant: &[u8],
    rootk: &PublicKey,
    legit: &dyn Fn(&Signed) -> bool,
) -> Verdict {
    let res = guard(|| Biscuit::from(variant, *rootk));
    let tok = match res {
        Err(p) => return Verdict::Panic(p),
        Ok(Err(_)) => {
            // the other load paths must agree
            let r2 = guard(|| UnverifiedBiscuit::from(variant).ok().and_then(|u| u.verify(*rootk).ok()));
            match r2 {
                Err(p) => return Verdict::Panic(p),
                Ok(Some(_)) => return Verdict::Forged("Biscuit::from refuses but UnverifiedBiscuit::from+verify accepts".into()),
                Ok(None) => {
                    // the deprecated loader only differs for third-party blocks in the legacy layout: whatever else it
                    // accepts must be accepted by the independent verifier in legacy mode
                    let r3 = guard(|| Biscuit::unsafe_deprecated_deserialize(variant, *rootk).is_ok());
                    match r3 {
                        Err(p) => return Verdict::Panic(p),
                        Ok(true) => {
                            let rk = rootk.to_proto();
                            if rsig_verify_mode(variant, rk.algorithm, &rk.key, true).is_err() {
                                return Verdict::Forged("Biscuit::from refuses but Biscuit::unsafe_deprecated_deserialize accepts (and the independent verifier refuses it even in legacy mode)".into());
                            }
                            return Verdict::Rejected;
                        }
                        Ok(false) => return Verdict::Rejected,
                    }
                }
            }
        }
        Ok(Ok(t)) => t,
    };
    let out = guard(|| {
        let bytes = tok.to_vec().map_err(|e| format!("{e:?}"))?;
        let p = schema::Biscuit::decode(&bytes[..]).map_err(|e| e.to_string())?;
        let sc = signed_content(&p).ok_or("no signed content")?;
        // what was presented must be what is held
        let pv = schema::Biscuit::decode(variant).map_err(|e| e.to_string())?;
        let scv = signed_content(&pv).ok_or("variant has no signed content")?;
        Ok::<_, String>((sc, scv, TokView::of(&tok)))
    });
    match out {
        Err(p) => Verdict::Panic(p),
        Ok(Err(e)) => Verdict::Forged(format!("accepted but cannot be inspected: {e}")),
        Ok(Ok((sc, scv, view))) => {
            if sc != scv {
                return Verdict::Forged("accepted token re-serializes to different signed content".into());
            }
            if sc != *orig {
                if legit(&sc) {
                    return Verdict::OtherHonestToken;
                }
                return Verdict::Forged("accepted with different signed content".into());
            }
            if view != *orig_view {
                return Verdict::Forged("accepted with same signed content but different revocation ids / sources / external keys".into());
            }
            Verdict::SameContent
        }
    }
}

#[derive(Debug, PartialEq, Eq, Clone)]
pub struct TokView {
    pub revocation: Vec<Vec<u8>>,
    pub sources: Vec<String>,
    pub external: Vec<Option<String>>,
}
impl TokView {
    pub fn of(t: &Biscuit) -> TokView {
        TokView {
            revocation: t.revocation_identifiers(),
            sources: (0..t.block_count())
                .map(|i| t.print_block_source(i).unwrap_or_else(|e| format!("ERR {e:?}")))
                .collect(),
            external: t.external_public_keys().iter().map(|k| k.map(|k| pk_str(&k))).collect(),
        }
    }
}

pub fn orig_of(c: &CorpusTok) -> Option<(Signed, TokView)> {
    let rootk = root(c.root_alg).public();
    let t = Biscuit::from(&c.bytes, rootk).ok()?;
    Some((signed_content(&c.proto)?, TokView::of(&t)))
}

pub fn run(tier: Tier) {
    let ctx = Ctx::new("C01", tier);
    let depth = std::env::var("VERIF_C01_DEPTH").ok().and_then(|v| v.parse().ok()).unwrap_or(tier.pick(2, 2));
    let (corpus, st) = build_corpus(depth, &["b0", "b5"], &["t1"], &[None]);
    let samples = Samples::new(8);
    let evals = AtomicUsize::new(0);
    let rejected = AtomicUsize::new(0);
    let same = AtomicUsize::new(0);
    let classes: Mutex<BTreeMap<String, usize>> = Mutex::new(BTreeMap::new());

    // partner sets: tokens issued by the same build operation (same root, same first next key)
    let mut by_build: BTreeMap<String, Vec<usize>> = BTreeMap::new();
    for (i, t) in corpus.tokens.iter().enumerate() {
        by_build.entry(t.hist[0].show()).or_default().push(i);
    }
    // one representative of every other build op, so that foreign material is tried too
    let reps: Vec<usize> = by_build.values().map(|v| *v.last().unwrap()).collect();

    let legit_set: std::collections::HashSet<String> = corpus
        .tokens
        .iter()
        .map(|c| format!("{:?}", signed_content(&c.proto).unwrap()))
        .collect();
    let legit = |sc: &Signed| legit_set.contains(&format!("{:?}", sc));
    let honest = AtomicUsize::new(0);
    let report = |c: &CorpusTok, class: &str, v: &Verdict, variant: &[u8]| {
        evals.fetch_add(1, Ordering::Relaxed);
        *classes.lock().unwrap().entry(class.split('/').take(2).collect::<Vec<_>>().join("/")).or_insert(0) += 1;
        match v {
            Verdict::Rejected => {
                rejected.fetch_add(1, Ordering::Relaxed);
            }
            Verdict::SameContent => {
                same.fetch_add(1, Ordering::Relaxed);
            }
            Verdict::OtherHonestToken => {
                honest.fetch_add(1, Ordering::Relaxed);
            }
            Verdict::Forged(why) => ctx.violation(
                format!("C01/{class}"),
                json!({"history": show_hist(&c.hist), "token_class": token_class(&c.hist), "operator": class, "why": why,
                       "original": hex::encode(&c.bytes), "variant": hex::encode(variant), "root": pk_str(&root(c.root_alg).public())}),
            ),
            Verdict::Panic(p) => ctx.violation(
                format!("C01/panic/{}", panic_site(p)),
                json!({"history": show_hist(&c.hist), "operator": class, "panic": p, "variant": hex::encode(variant)}),
            ),
        }
    };

    // 1+2: structured and algebraic mutations, every token
    corpus.tokens.par_iter().enumerate().for_each(|(idx, c)| {
        let (orig, view) = orig_of(c).expect("corpus token verifies");
        let rootk = root(c.root_alg).public();
        let mut partner_idx: Vec<usize> = by_build[&c.hist[0].show()].clone();
        for r in &reps {
            if !partner_idx.contains(r) {
                partner_idx.push(*r);
            }
        }
        let pools = pools_of(partner_idx.iter().map(|i| &corpus.tokens[*i].proto));
        let muts = structured_mutants(&c.proto, &pools);
        if idx % 37 == 0 {
            samples.push(|| json!({"token": show_hist(&c.hist), "mutants": muts.len(), "example_operator": muts[muts.len() / 2].class}));
        }
        for m in muts {
            let bytes = m.token.encode_to_vec();
            if bytes == c.bytes {
                continue;
            }
            let v = judge_with(&orig, &view, &bytes, &rootk, &legit);
            let allowed_same = m.class.starts_with("root_key_id/") || m.class.contains("p256-uncompressed");
            match (&v, allowed_same) {
                (Verdict::SameContent, false) => {
                    // a mutation that changed a signed field must not be accepted;
                    // same canonical content means the operator was a no-op re-encoding
                    let pv = schema::Biscuit::decode(&bytes[..]).ok().and_then(|p| signed_content(&p));
                    if pv.as_ref() != Some(&orig) {
                        report(c, &m.class, &Verdict::Forged("accepted although signed content changed".into()), &bytes);
                        continue;
                    }
                    report(c, &m.class, &v, &bytes);
                }
                _ => report(c, &m.class, &v, &bytes),
            }
        }
        // 4: wrong root keys
        for (name, k) in [
            ("other-root-same-alg-1", other_root(c.root_alg, 0).public()),
            ("other-root-same-alg-2", other_root(c.root_alg, 1).public()),
            ("other-alg-root", root(if c.root_alg == Alg::Ed { Alg::P256 } else { Alg::Ed }).public()),
            ("first-next-key-as-root", PublicKey::from_proto(&c.proto.authority.next_key).unwrap()),
        ] {
            let r = guard(|| Biscuit::from(&c.bytes, k).is_ok());
            evals.fetch_add(1, Ordering::Relaxed);
            match r {
                Ok(false) => {
                    rejected.fetch_add(1, Ordering::Relaxed);
                }
                Ok(true) => ctx.violation(format!("C01/wrong-root/{name}"), json!({"history": show_hist(&c.hist), "root_used": pk_str(&k)})),
                Err(p) => ctx.violation(format!("C01/panic/{}", panic_site(&p)), json!({"history": show_hist(&c.hist), "panic": p})),
            }
            let kk = k;
            let r = guard(|| {
                Biscuit::from(&c.bytes, move |_kid: Option<u32>| -> Result<PublicKey, biscuit_auth::error::Format> { Ok(kk) }).is_ok()
            });
            evals.fetch_add(1, Ordering::Relaxed);
            if r != Ok(false) {
                ctx.violation(format!("C01/wrong-root-provider/{name}"), json!({"history": show_hist(&c.hist)}));
            }
        }
    });

    // 3: byte-level faults: one token per class (quick) / every token up to depth 1 + one per class (thorough)
    let mut byte_targets: BTreeMap<String, usize> = BTreeMap::new();
    for (i, c) in corpus.tokens.iter().enumerate() {
        let cls = token_class(&c.hist);
        let pick = match tier {
            Tier::Quick => {
                // class by shape only (no algorithms)
                let shape: String = cls.chars().filter(|ch| "ABT+".contains(*ch) || ch.is_ascii_lowercase() && false).collect::<String>() + if c.sealed { "s" } else { "" } + c.root_alg.name();
                shape
            }
            Tier::Thorough => cls,
        };
        let n = byte_targets.len() as u64;
        let e = byte_targets.entry(pick).or_insert(i);
        // VERIF_SEED rotates the representative
        if ctx.seed != 0 && (i as u64 + ctx.seed + n) % 3 == 0 {
            *e = i;
        }
    }
    let byte_list: Vec<usize> = byte_targets.values().cloned().collect();
    let byte_evals = AtomicUsize::new(0);
    byte_list.par_iter().for_each(|i| {
        let c = &corpus.tokens[*i];
        let (orig, view) = orig_of(c).unwrap();
        let rootk = root(c.root_alg).public();
        let mut variants: Vec<(String, Vec<u8>)> = vec![];
        for pos in 0..c.bytes.len() {
            for bit in 0..8 {
                let mut v = c.bytes.clone();
                v[pos] ^= 1 << bit;
                variants.push(("bit-flip".into(), v));
            }
            let mut v = c.bytes.clone();
            v.remove(pos);
            variants.push(("byte-deletion".into(), v));
            variants.push(("truncation".into(), c.bytes[..pos].to_vec()));
        }
        for (name, v) in variants {
            byte_evals.fetch_add(1, Ordering::Relaxed);
            let verdict = judge_with(&orig, &view, &v, &rootk, &legit);
            // a byte-level change may be a pure re-encoding (e.g. protobuf framing, root key id)
            report(c, &format!("bytes/{name}"), &verdict, &v);
        }
    });

    // 5: attacker assembly search (thorough): all recombinations of the material of two tokens
    let mut assembly = json!(null);
    if tier == Tier::Thorough {
        assembly = assembly_search(&ctx, &corpus, &by_build);
    }

    let n_tokens = corpus.tokens.len();
    let cov = json!({
        "evaluations": evals.load(Ordering::Relaxed),
        "distinct_nontrivial": rejected.load(Ordering::Relaxed),
        "rule": "corpus = every token reachable by real API histories (E-hist BFS, both algorithms in every position, v0/v1 signatures, first/third-party, sealed/unsealed); per token every structured single mutation of the decoded wire message (each field x {flip,truncate,extend,zero,splice with every value of its partner tokens}), block delete/duplicate/transpose/insert, proof operators, signature-algebra operators, wrong roots; byte-level: every bit flip, byte deletion and truncation of representative tokens. distinct_nontrivial = variants whose bytes differ from the original and that the library refused",
        "corpus_tokens": n_tokens,
        "corpus_states": st.states,
        "corpus_transitions": st.transitions,
        "corpus_depth_after_build": st.max_depth,
        "accepted_as_pure_reencoding": same.load(Ordering::Relaxed),
        "variants_equal_to_another_honest_corpus_token": honest.load(Ordering::Relaxed),
        "byte_level_tokens": byte_list.len(),
        "byte_level_variants": byte_evals.load(Ordering::Relaxed),
        "evaluations_per_operator_family": classes.into_inner().unwrap(),
        "assembly_search": assembly,
        "exhaustive": true,
        "samples": samples.take(),
    });
    ctx.finish(
        "fault_enumeration",
        cov,
        vec![
            "computational unforgeability of ed25519 / ECDSA-P256 and collision resistance of SHA-2 are assumed: only recombinations and algebraic transformations of honestly produced signed material are enumerated".into(),
            "multi-bit corruptions that are not one of the structured operators are not covered".into(),
        ],
    );
}

/// pruned DFS assembling tokens slot by slot from the pooled material of two tokens
fn assembly_search(ctx: &Ctx, corpus: &Corpus, by_build: &BTreeMap<String, Vec<usize>>) -> serde_json::Value {
    // pairs: within each build group, tokens with <= 2 blocks; bounded number of pairs per group
    let mut pairs: Vec<(usize, usize)> = vec![];
    for idxs in by_build.values() {
        let small: Vec<usize> = idxs.iter().cloned().filter(|i| corpus.tokens[*i].proto.blocks.len() <= 1).collect();
        for (a, i) in small.iter().enumerate() {
            for j in small.iter().skip(a + 1) {
                pairs.push((*i, *j));
            }
        }
    }
    let prefixes = AtomicUsize::new(0);
    let accepted = AtomicUsize::new(0);
    pairs.par_iter().for_each(|(ia, ib)| {
        let (a, b) = (&corpus.tokens[*ia], &corpus.tokens[*ib]);
        let rootk = root(a.root_alg).public();
        let legit: Vec<Signed> = vec![signed_content(&a.proto).unwrap(), signed_content(&b.proto).unwrap()];
        let pools = pools_of([&a.proto, &b.proto].into_iter());
        // a probe proof that never matches: lets us tell "all blocks verified" from "a block failed"
        let probe = schema::Proof { content: Some(schema::proof::Content::NextSecret(vec![0x42; 32])) };
        let mut stack: Vec<Vec<schema::SignedBlock>> = vec![vec![]];
        while let Some(prefix) = stack.pop() {
            if prefix.len() >= 3 {
                continue;
            }
            for p in &pools.payloads {
                for k in &pools.keys {
                    for s in &pools.sigs {
                        for v in [None, Some(1u32)] {
                            let mut exts: Vec<Option<schema::ExternalSignature>> = vec![None];
                            exts.extend(pools.exts.iter().cloned().map(Some));
                            for e in exts {
                                let blk = schema::SignedBlock { block: p.clone(), next_key: k.clone(), signature: s.clone(), external_signature: e, version: v };
                                let mut cand = prefix.clone();
                                cand.push(blk);
                                prefixes.fetch_add(1, Ordering::Relaxed);
                                let t = schema::Biscuit { root_key_id: None, authority: cand[0].clone(), blocks: cand[1..].to_vec(), proof: probe.clone() };
                                let r = guard(|| Biscuit::from(&t.encode_to_vec(), rootk).map(|_| ()).map_err(|e| format!("{e:?}")));
                                let blocks_ok = match &r {
                                    Ok(Err(e)) => e.contains("the last public key does not match the private key") || e.contains("InvalidKey"),
                                    Ok(Ok(())) => true,
                                    Err(_) => false,
                                };
                                // cross-check the prefix verdict with R-sig
                                if !blocks_ok {
                                    continue;
                                }
                                // complete with every pooled proof
                                for pr in &pools.proofs {
                                    let full = schema::Biscuit { root_key_id: None, authority: cand[0].clone(), blocks: cand[1..].to_vec(), proof: pr.clone() };
                                    let fb = full.encode_to_vec();
                                    if Biscuit::from(&fb, rootk).is_ok() {
                                        accepted.fetch_add(1, Ordering::Relaxed);
                                        let sc = signed_content(&full).unwrap();
                                        if !legit.contains(&sc) {
                                            ctx.violation(
                                                "C01/assembly/accepted-recombination".to_string(),
                                                json!({"a": show_hist(&a.hist), "b": show_hist(&b.hist), "assembled": hex::encode(&fb)}),
                                            );
                                        }
                                    }
                                }
                                stack.push(cand);
                            }
                        }
                    }
                }
            }
        }
    });
    json!({"pairs": pairs.len(), "candidate_prefixes_verified_by_real_code": prefixes.load(Ordering::Relaxed), "accepted_assemblies (all equal to one of the two originals)": accepted.load(Ordering::Relaxed), "max_blocks": 3})
}

//! C03 — attenuation can only restrict: appended blocks never grant access.
//! Metamorphic oracle on the real code over (token, extension, authorizer) triples.
use crate::c04::{build_token, ext_of, real_decision, real_world, Party, Sc};
use crate::common::*;
use crate::rdl::{self, Decision, FailedCheck};
use crate::tok::*;
use biscuit_auth::builder as b;
use biscuit_auth::{Authorizer, AuthorizerBuilder, Biscuit};
use rayon::prelude::*;
use serde_json::json;
use std::collections::{BTreeMap, BTreeSet};
use std::sync::atomic::{AtomicUsize, Ordering};

#[derive(Clone, Debug)]
pub enum Item {
    Fact(&'static str, i64),
    /// head pred <- body pred ($x), scope
    Rule(&'static str, &'static str, Sc),
    /// head pred(const) <- body pred($x)
    RuleConst(&'static str, i64, &'static str, Sc),
    CheckIf(&'static str, Option<i64>, Sc),
    CheckIfOr(&'static str, i64, &'static str, i64),
    CheckAllGt0(&'static str, Sc),
    Reject(&'static str, i64, Sc),
}

fn x() -> b::Term {
    b::var("x")
}
fn qrule(body: Vec<b::Predicate>, exprs: Vec<b::Expression>, sc: Sc) -> b::Rule {
    let empty: &[b::Term] = &[];
    b::Rule::new(b::pred("query", empty), body, exprs, sc.scopes())
}
fn gt0() -> b::Expression {
    b::Expression { ops: vec![b::Op::Value(x()), b::Op::Value(b::int(0)), b::Op::Binary(b::Binary::GreaterThan)] }
}

impl Item {
    pub fn show(&self) -> String {
        match self {
            Item::Fact(p, c) => format!("{p}({c})"),
            Item::Rule(h, bd, s) => format!("{h}($x) <- {bd}($x) [{}]", s.show()),
            Item::RuleConst(h, c, bd, s) => format!("{h}({c}) <- {bd}($x) [{}]", s.show()),
            Item::CheckIf(p, Some(c), s) => format!("check if {p}({c}) [{}]", s.show()),
            Item::CheckIf(p, None, s) => format!("check if {p}($x) [{}]", s.show()),
            Item::CheckIfOr(p, c, p2, c2) => format!("check if {p}({c}) or {p2}({c2})"),
            Item::CheckAllGt0(p, s) => format!("check all {p}($x), $x > 0 [{}]", s.show()),
            Item::Reject(p, c, s) => format!("reject if {p}({c}) [{}]", s.show()),
        }
    }
    pub fn add_to(&self, bb: &mut b::BlockBuilder) {
        match self {
            Item::Fact(p, c) => bb.facts.push(b::fact(p, &[b::int(*c)])),
            Item::Rule(h, bd, s) => bb.rules.push(b::Rule::new(b::pred(h, &[x()]), vec![b::pred(bd, &[x()])], vec![], s.scopes())),
            Item::RuleConst(h, c, bd, s) => bb.rules.push(b::Rule::new(b::pred(h, &[b::int(*c)]), vec![b::pred(bd, &[x()])], vec![], s.scopes())),
            Item::CheckIf(p, c, s) => bb.checks.push(b::Check {
                queries: vec![qrule(vec![b::pred(p, &[c.map(b::int).unwrap_or_else(x)])], vec![], *s)],
                kind: b::CheckKind::One,
            }),
            Item::CheckIfOr(p, c, p2, c2) => bb.checks.push(b::Check {
                queries: vec![qrule(vec![b::pred(p, &[b::int(*c)])], vec![], Sc::None), qrule(vec![b::pred(p2, &[b::int(*c2)])], vec![], Sc::None)],
                kind: b::CheckKind::One,
            }),
            Item::CheckAllGt0(p, s) => bb.checks.push(b::Check { queries: vec![qrule(vec![b::pred(p, &[x()])], vec![gt0()], *s)], kind: b::CheckKind::All }),
            Item::Reject(p, c, s) => bb.checks.push(b::Check { queries: vec![qrule(vec![b::pred(p, &[b::int(*c)])], vec![], *s)], kind: b::CheckKind::Reject }),
        }
    }
}

fn block_of_items(items: &[Item], scope: Sc) -> b::BlockBuilder {
    let mut bb = b::BlockBuilder::new();
    for i in items {
        i.add_to(&mut bb);
    }
    bb.scopes = scope.scopes();
    bb
}

/// items of the original token's blocks (scopes never name K2)
fn base_items() -> Vec<Item> {
    vec![
        Item::Fact("f", 0),
        Item::Fact("f", 1),
        Item::Fact("g", 1),
        Item::Rule("d", "f", Sc::None),
        Item::Rule("d", "f", Sc::Previous),
        Item::Rule("f", "g", Sc::None),
        Item::CheckIf("f", Some(1), Sc::None),
        Item::CheckIf("d", Some(1), Sc::None),
        Item::CheckIf("f", Some(1), Sc::Previous),
        Item::Reject("g", 1, Sc::None),
        Item::Reject("d", 1, Sc::Previous),
        Item::CheckAllGt0("f", Sc::None),
        Item::CheckAllGt0("f", Sc::Previous),
        Item::CheckIf("g", None, Sc::K1),
    ]
}

/// items of the appended block: everything an attacker would try
fn ext_items() -> Vec<Item> {
    let mut v = vec![
        Item::Fact("f", 0),
        Item::Fact("f", 1),
        Item::Fact("g", 0),
        Item::Fact("g", 1),
        Item::Fact("d", 1),
        Item::Rule("d", "f", Sc::None),
        Item::Rule("d", "f", Sc::Previous),
        Item::Rule("f", "g", Sc::None),
        Item::Rule("f", "g", Sc::Previous),
        Item::Rule("g", "d", Sc::Authority),
        Item::Rule("f", "f", Sc::K2),
        Item::RuleConst("f", 1, "f", Sc::Previous),
        Item::RuleConst("d", 1, "g", Sc::None),
        Item::CheckIf("f", Some(1), Sc::None),
        Item::CheckIf("f", Some(1), Sc::Previous),
        Item::CheckIf("d", None, Sc::K2),
        Item::CheckIfOr("f", 0, "g", 1),
        Item::CheckAllGt0("f", Sc::Previous),
        Item::Reject("g", 1, Sc::None),
        Item::Reject("f", 0, Sc::Previous),
    ];
    v.push(Item::Rule("d", "g", Sc::K1));
    v
}

#[derive(Clone, Debug)]
pub struct AuthCfg {
    pub fact: Option<(&'static str, i64)>,
    pub rule: Option<(&'static str, &'static str, Sc)>,
    pub rule2: Option<(&'static str, &'static str, Sc)>,
    pub check: Option<Item>,
    pub policies: usize,
    pub scope: Sc,
}

fn auth_policies(v: usize) -> Vec<b::Policy> {
    let tru = b::Expression { ops: vec![b::Op::Value(b::Term::Bool(true))] };
    let allow_true = b::Policy { queries: vec![qrule(vec![], vec![tru.clone()], Sc::None)], kind: b::PolicyKind::Allow };
    let deny_true = b::Policy { queries: vec![qrule(vec![], vec![tru], Sc::None)], kind: b::PolicyKind::Deny };
    let on = |p: &str, c: i64, kind, sc: Sc| b::Policy { queries: vec![qrule(vec![b::pred(p, &[b::int(c)])], vec![], sc)], kind };
    match v {
        0 => vec![allow_true],
        1 => vec![on("f", 1, b::PolicyKind::Allow, Sc::None)],
        2 => vec![on("g", 1, b::PolicyKind::Deny, Sc::None), allow_true],
        3 => vec![on("d", 1, b::PolicyKind::Allow, Sc::None), deny_true],
        4 => vec![on("d", 1, b::PolicyKind::Deny, Sc::None), on("f", 0, b::PolicyKind::Allow, Sc::None)],
        5 => vec![on("g", 0, b::PolicyKind::Allow, Sc::K1), allow_true],
        _ => unreachable!(),
    }
}

pub fn mk_auth(c: &AuthCfg) -> AuthorizerBuilder {
    let mut ab = AuthorizerBuilder::new().limits(crate::c04::big_limits());
    if let Some((p, v)) = c.fact {
        ab = ab.fact(b::fact(p, &[b::int(v)])).unwrap();
    }
    if let Some((h, bd, s)) = c.rule {
        ab = ab.rule(b::Rule::new(b::pred(h, &[x()]), vec![b::pred(bd, &[x()])], vec![], s.scopes())).unwrap();
    }
    if let Some((h, bd, s)) = c.rule2 {
        ab = ab.rule(b::Rule::new(b::pred(h, &[x()]), vec![b::pred(bd, &[x()])], vec![], s.scopes())).unwrap();
    }
    if let Some(item) = &c.check {
        let mut bb = b::BlockBuilder::new();
        item.add_to(&mut bb);
        for ch in bb.checks {
            ab = ab.check(ch).unwrap();
        }
    }
    for p in auth_policies(c.policies) {
        ab = ab.policy(p).unwrap();
    }
    for s in c.scope.scopes() {
        ab = ab.scope(s);
    }
    ab
}

pub fn auth_cfgs(tier: Tier) -> Vec<AuthCfg> {
    let checks: Vec<Option<Item>> = vec![
        None,
        Some(Item::CheckIf("f", Some(1), Sc::None)),
        Some(Item::CheckIf("d", Some(1), Sc::None)),
        Some(Item::CheckAllGt0("f", Sc::None)),
        Some(Item::Reject("g", 1, Sc::None)),
        Some(Item::Reject("d", 1, Sc::None)),
        Some(Item::CheckIf("g", None, Sc::K1)),
    ];
    let mut v = vec![];
    // check x policy
    for c in &checks {
        for p in 0..6 {
            v.push(AuthCfg { fact: None, rule: None, rule2: None, check: c.clone(), policies: p, scope: Sc::None });
        }
    }
    // facts / rules with sensitive policies
    for f in [None, Some(("f", 1)), Some(("g", 1))] {
        for r in [None, Some(("d", "f", Sc::None)), Some(("f", "g", Sc::None)), Some(("d", "g", Sc::K1))] {
            for p in [1usize, 3, 4] {
                if f.is_none() && r.is_none() {
                    continue;
                }
                v.push(AuthCfg { fact: f, rule: r, rule2: None, check: None, policies: p, scope: Sc::None });
            }
        }
    }
    // authorizer-level scopes
    for sc in [Sc::Authority, Sc::K1] {
        for p in [1usize, 3, 5] {
            v.push(AuthCfg { fact: None, rule: Some(("d", "f", Sc::None)), rule2: None, check: Some(Item::CheckAllGt0("f", Sc::None)), policies: p, scope: sc });
        }
    }
    // two-round derivations on the authorizer side, used negatively
    let mut chains = vec![];
    for f in [Some(("g", 1)), Some(("f", 1)), None] {
        for p in [3usize, 4, 2] {
            for c in [None, Some(Item::Reject("d", 1, Sc::None)), Some(Item::CheckAllGt0("d", Sc::None))] {
                chains.push(AuthCfg { fact: f, rule: Some(("f", "g", Sc::None)), rule2: Some(("d", "f", Sc::None)), check: c, policies: p, scope: Sc::None });
            }
        }
    }
    if tier == Tier::Quick {
        // every third configuration + all with checks
        v = v.into_iter().enumerate().filter(|(i, c)| i % 3 == 0 || c.scope != Sc::None).map(|(_, c)| c).collect();
        chains = chains.into_iter().enumerate().filter(|(i, _)| i % 2 == 0).map(|(_, c)| c).collect();
    }
    v.extend(chains);
    v
}

struct Obs {
    decision: Result<Decision, String>,
    world: rdl::World,
}

fn observe(ab: &AuthorizerBuilder, t: &Biscuit, via_snapshot: bool) -> Result<Obs, String> {
    let r = guard(|| {
        let mut a: Authorizer = ab.clone().build(t).map_err(|e| format!("build: {e:?}"))?;
        if via_snapshot {
            // restoring is C13's business: when it fails the original object is observed
            if let Some(r) = a.to_raw_snapshot().ok().and_then(|s| Authorizer::from_raw_snapshot(&s).ok()) {
                a = r;
            }
        }
        let res = a.authorize();
        let world = real_world(&a)?;
        Ok::<_, String>(Obs { decision: real_decision(&res), world })
    });
    match r {
        Ok(x) => x,
        Err(p) => Err(format!("PANIC {p}")),
    }
}

fn failed_of(d: &Decision) -> Vec<FailedCheck> {
    match d {
        Decision::Ok(_) => vec![],
        Decision::UnauthorizedAllow(_, f) | Decision::UnauthorizedDeny(_, f) | Decision::NoMatchingPolicy(f) => f.clone(),
    }
}

pub fn run(tier: Tier) {
    let ctx = Ctx::new("C03", tier);
    let base = base_items();
    let ext = ext_items();
    // ---- original tokens
    let mut tokens: Vec<(String, Vec<b::BlockBuilder>, Vec<Party>)> = vec![];
    let mut b0s: Vec<Vec<Item>> = base.iter().map(|i| vec![i.clone()]).collect();
    for i in 0..base.len() {
        for j in (i + 1)..base.len() {
            if tier == Tier::Thorough || (i + j) % 3 == 0 {
                b0s.push(vec![base[i].clone(), base[j].clone()]);
            }
        }
    }
    // multi-round derivations inside the token, used negatively
    for extra in [None, Some(Item::Reject("d", 1, Sc::None)), Some(Item::CheckAllGt0("d", Sc::None)), Some(Item::CheckIf("d", Some(1), Sc::None))] {
        let mut items = vec![Item::Fact("g", 1), Item::Rule("f", "g", Sc::None), Item::Rule("d", "f", Sc::None)];
        if let Some(e) = extra {
            items.push(e);
        }
        b0s.push(items);
    }
    let b1_items: Vec<Item> = vec![Item::Fact("g", 1), Item::Rule("d", "f", Sc::Previous), Item::CheckIf("d", Some(1), Sc::Previous), Item::Reject("g", 1, Sc::Previous), Item::Fact("f", 1), Item::CheckIf("g", None, Sc::K1)];
    for b0 in &b0s {
        let d0 = b0.iter().map(|i| i.show()).collect::<Vec<_>>().join("; ");
        tokens.push((format!("[{d0}]"), vec![block_of_items(b0, Sc::None)], vec![Party::First]));
        for (k, it) in b1_items.iter().enumerate() {
            if tier == Tier::Quick && (k + b0.len()) % 2 == 0 {
                continue;
            }
            for party in [Party::First, Party::ThirdK1] {
                tokens.push((format!("[{d0}] + {:?}[{}]", party, it.show()), vec![block_of_items(b0, Sc::None), block_of_items(std::slice::from_ref(it), Sc::None)], vec![Party::First, party]));
            }
        }
    }
    // ---- extensions
    let mut exts: Vec<(String, b::BlockBuilder, Party)> = vec![];
    let mut ext_sets: Vec<Vec<Item>> = ext.iter().map(|i| vec![i.clone()]).collect();
    for i in 0..ext.len() {
        for j in (i + 1)..ext.len() {
            if tier == Tier::Thorough || (i * 7 + j) % 5 == 0 {
                ext_sets.push(vec![ext[i].clone(), ext[j].clone()]);
            }
        }
    }
    for items in &ext_sets {
        let d = items.iter().map(|i| i.show()).collect::<Vec<_>>().join("; ");
        for party in [Party::First, Party::ThirdK2] {
            for bs in [Sc::None, Sc::Previous] {
                if tier == Tier::Quick && bs == Sc::Previous && items.len() == 2 {
                    continue;
                }
                exts.push((format!("{party:?} block[{}] {{{d}}}", bs.show()), block_of_items(items, bs), party));
            }
        }
    }
    let auths = auth_cfgs(tier);
    let auth_builders: Vec<AuthorizerBuilder> = auths.iter().map(mk_auth).collect();

    let triples = AtomicUsize::new(0);
    let granted_checks = AtomicUsize::new(0);
    let tb_built = AtomicUsize::new(0);
    let dec_pairs: std::sync::Mutex<BTreeMap<String, usize>> = std::sync::Mutex::new(BTreeMap::new());
    let samples_out = Samples::new(5);

    tokens.par_iter().enumerate().for_each(|(ti, (tdesc, tblocks, tparties))| {
        let t = match guard(|| build_token(tblocks, tparties)) {
            Ok(Ok(t)) => t,
            other => {
                ctx.violation_lazy("C03/base-token-refused".to_string(), || json!({"token": tdesc, "error": format!("{other:?}")}));
                return;
            }
        };
        // authorizer observations on T, computed once
        let base_obs: Vec<Result<Obs, String>> = auth_builders.iter().map(|ab| observe(ab, &t, false)).collect();
        let new_id = tblocks.len();
        for (ei, (edesc, eblock, eparty)) in exts.iter().enumerate() {
            // T + B through the real API
            let nk = key(Alg::Ed, ROLE_NEXT, 9);
            let tb = guard(|| match ext_of(*eparty) {
                None => t.append_with_keypair(&nk, eblock.clone()).map_err(|e| format!("{e:?}")),
                Some(k) => {
                    let req = t.third_party_request().map_err(|e| format!("{e:?}"))?;
                    let resp = req.create_block(&k.private(), eblock.clone()).map_err(|e| format!("{e:?}"))?;
                    t.append_third_party_with_keypair(k.public(), resp, nk).map_err(|e| format!("{e:?}"))
                }
            });
            let tb = match tb {
                Ok(Ok(x)) => x,
                other => {
                    ctx.violation_lazy("C03/extension-refused".to_string(), || json!({"token": tdesc, "extension": edesc, "error": format!("{other:?}")}));
                    continue;
                }
            };
            tb_built.fetch_add(1, Ordering::Relaxed);
            // the extended token is what travels: after serialization it is still the same token
            let reloaded = guard(|| tb.to_vec().map_err(|e| format!("{e:?}")).and_then(|v| Biscuit::from(&v, root(Alg::Ed).public()).map_err(|e| format!("{e:?}"))));
            match reloaded {
                Ok(Ok(r)) => {
                    for (ai, ab) in auth_builders.iter().enumerate().filter(|(ai, _)| (ai + ei) % 4 == 0) {
                        let (a, b) = (observe(ab, &tb, false), observe(ab, &r, false));
                        let same = match (&a, &b) {
                            (Ok(x), Ok(y)) => format!("{:?}", x.decision) == format!("{:?}", y.decision),
                            (Err(x), Err(y)) => x == y,
                            _ => false,
                        };
                        if !same {
                            ctx.violation_lazy("C03/extended-token-decides-differently-after-serialization".to_string(), || json!({"token": tdesc, "extension": edesc, "authorizer": format!("{:?}", auths[ai]), "in_memory": format!("{:?}", a.as_ref().map(|o| format!("{:?}", o.decision))), "reloaded": format!("{:?}", b.as_ref().map(|o| format!("{:?}", o.decision)))}));
                        }
                    }
                }
                other => ctx.violation_lazy("C03/extended-token-does-not-reload".to_string(), || json!({"token": tdesc, "extension": edesc, "error": format!("{other:?}")})),
            }
            for (ai, ab) in auth_builders.iter().enumerate() {
                triples.fetch_add(1, Ordering::Relaxed);
                let o1 = &base_obs[ai];
                let via_snapshot = (ti + ei + ai) % 11 == 0;
                let o2 = observe(ab, &tb, via_snapshot);
                let case = || json!({"token": tdesc, "extension": edesc, "authorizer": format!("{:?}", auths[ai]), "restored_from_snapshot": via_snapshot,
                    "token_b64": t.to_base64().unwrap_or_default(), "extended_b64": tb.to_base64().unwrap_or_default()});
                let class = format!("{}{}", if *eparty == Party::First { "first-party" } else { "third-party" }, if tparties.len() > 1 { "/2-block-token" } else { "" });
                let (o1, o2) = match (o1, &o2) {
                    (Ok(a), Ok(b)) => (a, b),
                    (Err(e), _) | (_, Err(e)) => {
                        let site = if e.starts_with("PANIC") { panic_site(e) } else { e.chars().take(50).collect() };
                        ctx.violation_lazy(format!("C03/observation-failed/{site}"), || json!({"case": case(), "error": e}));
                        continue;
                    }
                };
                match (&o1.decision, &o2.decision) {
                    (Ok(d1), Ok(d2)) => {
                        if (ti + ei) % 5 == 0 {
                            let mut m = dec_pairs.lock().unwrap();
                            *m.entry(format!("{} -> {}", short(d1), short(d2))).or_insert(0) += 1;
                        }
                        // (a) an accepted extended token means the original is accepted by the same policy
                        if let Decision::Ok(i) = d2 {
                            if *d1 != Decision::Ok(*i) {
                                ctx.violation_lazy(format!("C03/extension-grants-access/{class}"), || json!({"case": case(), "original": format!("{d1:?}"), "extended": format!("{d2:?}")}));
                            }
                        }
                        // (b) every check that failed on the original still fails
                        let f2 = failed_of(d2);
                        for fc in failed_of(d1) {
                            if !f2.contains(&fc) {
                                granted_checks.fetch_add(1, Ordering::Relaxed);
                                ctx.violation_lazy(format!("C03/failed-check-now-passes/{class}"), || json!({"case": case(), "check": format!("{fc:?}"), "original": format!("{d1:?}"), "extended": format!("{d2:?}")}));
                            }
                        }
                    }
                    (d1, d2) => {
                        ctx.violation_lazy(format!("C03/unexpected-error/{class}"), || json!({"case": case(), "original": format!("{d1:?}"), "extended": format!("{d2:?}")}));
                    }
                }
                // (c) nothing that does not involve the new block changes
                let w2: rdl::World = o2.world.iter().filter(|(o, _)| !o.contains(&new_id)).cloned().collect();
                if w2 != o1.world {
                    let missing: Vec<String> = o1.world.difference(&w2).map(|x| format!("{x:?}")).collect();
                    let extra: Vec<String> = w2.difference(&o1.world).map(|x| format!("{x:?}")).collect();
                    ctx.violation_lazy(format!("C03/earlier-world-changed/{class}/{}", if extra.is_empty() { "missing" } else { "extra" }), || json!({"case": case(), "facts_lost": missing, "facts_gained_without_the_new_block_in_their_origin": extra}));
                }
                if ti % 97 == 0 && ei % 53 == 0 && ai % 17 == 0 {
                    samples_out.push(|| json!({"case": case(), "original": format!("{:?}", o1.decision), "extended": format!("{:?}", o2.decision)}));
                }
            }
        }
    });

    let n = triples.load(Ordering::Relaxed);
    let cov = json!({
        "states": n,
        "transitions": n + tb_built.load(Ordering::Relaxed),
        "traces_validated_against_impl": n,
        "original_tokens": tokens.len(),
        "extensions": exts.len(),
        "authorizers": auths.len(),
        "extended_tokens_built": tb_built.load(Ordering::Relaxed),
        "decision_transitions_observed (sampled)": dec_pairs.into_inner().unwrap(),
        "exhaustive": true,
        "samples": samples_out.take(),
        "rule": "every (token, extension, authorizer) triple of the grammar: token = authority block with 1-2 items (+ optional first/third-party(K1) block), extension = first-party or third-party(K2) block with 1-2 items out of facts, rules and checks of the three kinds aimed at the earlier blocks' predicates, with block/rule/check scopes {-, authority, previous, K1, K2}; authorizer = optional fact, rule, check, 6 ordered policy lists, scope in {-, authority, K1} (never K2); oracle on the real code: extended accepted => original accepted by the same policy; failed checks of the original still fail; facts whose origin does not contain the new block are unchanged (also through snapshot restore)",
    });
    ctx.finish(
        "model_checking",
        cov,
        vec![
            "metamorphic oracle: both sides are the real implementation (C04 ties it to the reference semantics)".into(),
            "limits non-binding; the authorizer and earlier blocks never trust the extension's external key".into(),
        ],
    );
}

fn short(d: &Decision) -> &'static str {
    match d {
        Decision::Ok(_) => "Ok",
        Decision::UnauthorizedAllow(..) => "Unauthorized(allow)",
        Decision::UnauthorizedDeny(..) => "Unauthorized(deny)",
        Decision::NoMatchingPolicy(..) => "NoMatchingPolicy",
    }
}
